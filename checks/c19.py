"""C19 -- Floating-point constants keep their exact value.

spec/XFloatOps.tla   bit-level transcription of xfloat.c (classify, dissemble, assemble, native<->portable)
spec/XFloat.tla      the life of a constant (Save/Load/TakeApart/Reassemble) with the C19 invariants;
                     TLC: every pattern of a scaled format, sign x every exponent x boundary fractions at 32/64 bits
spec/TraceXFloat.tla validates what harness/xfloat_drv.c logged from the real routines and what compiled Aldor
                     programs printed for their literals (Obs.tla agreement + the repacking the spec computes)
Every accept/reject decision below is TLC's (POSTCONDITION Accepted of TraceXFloat, invariants of XFloat);
Python only builds inputs, splits traces, and turns TLC's VIOL lines into keyed violations.
"""
import concurrent.futures as cf
import json
import os
import re
import struct
import subprocess
import sys

import vlib

sys.path.insert(0, os.path.join(vlib.VERIF, "gen"))
import c19_floatlit as lit  # noqa: E402

META = {
    "title": "Floating-point constants keep their exact value",
    "level": "model_checking",
    "technique": "TLA+ bit-level model of xfloat.c checked by TLC (exhaustive scaled format; every exponent x boundary "
                 "fractions at real widths); trace validation of the real routines and of compiled literal programs",
    "design_ref": "DESIGN.md §3.6, §5 C19",
    "level_text": "TLC establishes the round-trip and dissemble/assemble identities on the explicit model; the real "
                  "xfloat.c/foam_c.c/foam.c routines are bound to it by validating logged events, the 2^32 sweep "
                  "(thorough) compares the code with the identity TLC established",
    "level_note": "decimal->binary rounding itself is libc's and is not modelled; only agreement between "
                  "compile-time and run-time conversion is demanded",
}

MODEL_ACTIONS = ["SaveNanInf", "SaveZero", "SaveSubnormal", "SaveNormal", "LoadNanInf", "LoadOverflow", "LoadZero",
                 "LoadSubnormal", "LoadNormal", "TakeApart", "Reassemble"]

# (name, aldor options, route, folded, reload)   -- the first one is the reference (nothing folded, no file)
CFGS_QUICK = [("q0-interp", ["-Q0"], "interp", False, 0),
              ("q2-interp", ["-Q2"], "interp", True, 1),
              ("q2-ao-interp", ["-Q2"], "ao", True, 1),
              ("q2-c", ["-Q2"], "c", True, 0),
              ("q0-c", ["-Q0"], "c", False, 0)]
CFGS_THOROUGH = CFGS_QUICK + [("q1-interp", ["-Q1"], "interp", True, 1),
                              ("q0-ao-interp", ["-Q0"], "ao", False, 0),
                              ("q9-interp", ["-Q9"], "interp", True, 1),
                              ("q9-ao-interp", ["-Q9"], "ao", True, 1),
                              ("q9-c", ["-Q9"], "c", True, 0)]


# --------------------------------------------------------------------------- TLC helpers

# many small JVMs run side by side: keep their GC and JIT thread pools small
JVM_SMALL = "-XX:ParallelGCThreads=2 -XX:CICompilerCount=2"

def _postcondition_false(res):
    return re.search(r"Error: Postcondition (\w+) .*is false", res.out or "") is not None


def _validate(path):
    return vlib.tlc("TraceXFloat", "TraceXFloat", workers=1, timeout=1500, xmx="3g", xss="256m",
                    env={"TRACE": path, "JAVA_TOOL_OPTIONS": JVM_SMALL})


def _event_key(e, msg):
    if e is None:
        return {"msg": msg}
    ev = e.get("ev")
    if ev == "F":
        return {"ev": "F", "kind": e["k"], "x": "".join("%02x" % b for b in e["x"]), "msg": msg.split(" (")[0]}
    if ev == "X":
        return {"ev": "X", "kind": e["k"], "y": "".join("%02x" % b for b in e["y"]), "msg": msg}
    if ev == "Lit":
        return {"ev": "Lit", "kind": e["k"], "literal": e["lit"], "cfg": e["cfg"], "route": e["route"],
                "folded": e["folded"], "msg": msg.split(" (literal")[0]}
    if ev == "NoObs":
        return {"ev": "NoObs", "program": e["program"], "cfg": e["cfg"], "route": e["route"], "stage": e["stage"]}
    if ev == "Sweep":
        return {"ev": "Sweep", "kind": e["k"], "chunk": e["chunk"]}
    return {"ev": ev, "msg": msg}


def absorb(chk, res, events, what, totals):
    """Turn one TraceXFloat run into violations / coverage numbers.  `events' is the list of dicts of
    that trace (same order).  Returns True if TLC accepted the trace."""
    summary = None
    viols, drifts = [], []
    for p in res.printed:
        if not isinstance(p, str):
            continue
        if p.startswith("SUMMARY "):
            summary = json.loads(p[8:])
        elif p.startswith("VIOL "):
            m = re.match(r"VIOL (\d+) (.*)$", p, re.S)
            viols.append((int(m.group(1)), m.group(2)))
        elif p.startswith("DRIFT "):
            m = re.match(r"DRIFT (\d+) (.*)$", p, re.S)
            drifts.append((int(m.group(1)), m.group(2)))
    rejected = _postcondition_false(res)
    if not rejected and (res.error or res.rc != 0 or summary is None):
        raise vlib.MachineryError("TraceXFloat on %s failed: %s" % (what, res.error or res.out[-1500:]))
    chk.states += res.distinct
    chk.transitions += res.states
    chk.tlc_runs.append({"name": "TraceXFloat:" + what, "generated": res.states, "distinct": res.distinct,
                         "wall_s": round(res.wall, 2)})
    chk.traces += 1
    if summary:
        totals["drift"] += summary["drift"]
        for k in ("S", "D"):
            totals["inset"][k] += summary["inset"][k]
        for k, v in summary["counts"].items():
            totals["counts"][k] = totals["counts"].get(k, 0) + v
        totals["cards"] = summary["cards"]
    for l, names in drifts[:3]:
        totals["drift_first"].append({"trace": what, "event": events[l - 1] if l <= len(events) else None, "fields": names})
    if rejected:
        for l, msg in viols:
            e = events[l - 1] if l <= len(events) else None
            chk.violation("%s: %s" % (what, msg), {"event": e, "event_number": l, "trace": what}, key=_event_key(e, msg))
        if summary is None:      # the end of the trace was not reached: some event matched no action
            l = res.distinct
            e = events[l - 1] if 0 < l <= len(events) else None
            chk.violation("%s: event %d is not a step of TraceXFloat (trace rejected)" % (what, l),
                          {"event": e, "event_number": l, "trace": what}, key=_event_key(e, "unmatched event"))
        elif not viols:
            raise vlib.MachineryError("TraceXFloat rejected %s without naming an event" % what)
    return not rejected


def _read_events(path):
    with open(path) as fh:
        return [json.loads(x) for x in fh if x.strip()]


def _split(path, nchunks, outdir, tag):
    lines = open(path).read().splitlines()
    n = max(1, (len(lines) + nchunks - 1) // nchunks)
    out = []
    for i in range(0, len(lines), n):
        p = os.path.join(outdir, "%s-%03d.ndjson" % (tag, i // n))
        with open(p, "w") as fh:
            fh.write("\n".join(lines[i:i + n]) + "\n")
        out.append(p)
    return out


# --------------------------------------------------------------------------- Apalache (additional obligation, thorough tier)

APALACHE = "/opt/veriftools/apalache/bin/apalache-mc"


def _apalache(name, d, timeout=900):
    """The identities over ALL patterns of a real format, symbolically, on the integer formulation
    spec/XFloatApa<name>.tla (generated; tied to the bit-level model by XFloatApaAgree under TLC).
    Returns a dict for the evidence; only a counterexample is a result, a timeout is just recorded."""
    import c19_apalache
    fmt = {"SF": (8, 23, 15, 32), "DF": (11, 52, 15, 64), "Small": (4, 5, 6, 8)}[name]
    text = c19_apalache.emit(name, *fmt)
    path = os.path.join(vlib.SPEC, "XFloatApa%s.tla" % name)
    if open(path).read() != text:
        raise vlib.MachineryError("%s is stale: regenerate with gen/c19_apalache.py" % path)
    wd = os.path.join(d, "apa-" + name)
    os.makedirs(wd)
    with open(os.path.join(wd, "XFloatApa%s.tla" % name), "w") as fh:
        fh.write(text)
    if not os.path.exists(APALACHE):
        return {"module": "XFloatApa" + name, "outcome": "apalache not installed"}
    import time
    t0 = time.time()
    rc, so, se, to = vlib.run([APALACHE, "check", "--length=0", "--inv=Inv", "--out-dir=" + os.path.join(wd, "out"),
                               "XFloatApa%s.tla" % name], cwd=wd, timeout=timeout)
    out = (so + se).decode(errors="replace")
    m = re.search(r"The outcome is: (\w+)", out)
    res = {"module": "XFloatApa" + name, "wall_s": round(time.time() - t0, 1),
           "outcome": "timeout after %ds" % timeout if to else (m.group(1) if m else "failed: " + out[-300:])}
    return res


# --------------------------------------------------------------------------- harness

def _harness(h, args, out, timeout=3000):
    rc, so, se, to = vlib.run([h] + [str(a) for a in args] + [out], timeout=timeout)
    if to:
        raise vlib.MachineryError("xfloat_drv %s timed out" % (args,))
    if rc == 2:
        raise vlib.MachineryError("xfloat_drv %s: %s" % (args, se.decode(errors="replace")[-500:]))
    if rc != 0:
        # the code under test died: leave what was logged and append a Fault event, which no action
        # of TraceXFloat matches, so the trace is rejected by TLC
        with open(out, "ab") as fh:
            # drop a possibly half-written last line
            pass
        lines = open(out, errors="replace").read().split("\n")
        good = [x for x in lines[:-1] if x.endswith("}")]
        with open(out, "w") as fh:
            fh.write("\n".join(good + [json.dumps({"ev": "Fault", "signal": -rc if rc < 0 else rc})]) + "\n")
    return out


# --------------------------------------------------------------------------- literal programs

def _run_program(build, d, name, text, cfg):
    cname, opts, route, folded, reload = cfg
    wd = os.path.join(d, "%s-%s" % (name, cname))
    os.makedirs(wd)
    src = name + ".as"
    with open(os.path.join(wd, src), "w") as fh:
        fh.write(text)

    def fail(stage, rc, out):
        return {"ok": False, "stage": stage, "rc": rc, "out": out.decode(errors="replace")[-600:]}
    if route == "interp":
        rc, so, se, to = vlib.aldor(build, opts + ["-Ginterp", src], cwd=wd, timeout=600)
        if rc != 0:
            return fail("compile+run", rc, so + se)
    elif route == "ao":
        rc, so, se, to = vlib.aldor(build, opts + ["-Fao", src], cwd=wd, timeout=600)
        if rc != 0 or not os.path.exists(os.path.join(wd, name + ".ao")):
            return fail("compile", rc, so + se)
        rc, so, se, to = vlib.aldor(build, ["-Ginterp", "-laxllib", name + ".ao"], cwd=wd, timeout=600)
        if rc != 0:
            return fail("run", rc, so + se)
    else:
        rc, so, se, to = vlib.aldor(build, opts + ["-Fc", "-Fmain", src], cwd=wd, timeout=600)
        if rc != 0:
            return fail("compile", rc, so + se)
        rc, so2, se2, to = vlib.link_c(build, wd, [name + ".c", name + "-aldormain.c"], name + ".exe", timeout=600)
        if rc != 0:
            return fail("cc", rc, so2 + se2)
        rc, so, se, to = vlib.run([os.path.join(wd, name + ".exe")], cwd=wd, timeout=600)
        if rc != 0:
            return fail("run", rc, so + se)
    obs = lit.parse_output(so.decode(errors="replace"))
    if obs is None:
        return fail("output", 0, so)
    return {"ok": True, "obs": obs}


def literal_submit(chk, build, d, tier, pool):
    sets = lit.literal_sets(chk.seed, tier)
    cfgs = CFGS_QUICK if tier == "quick" else CFGS_THOROUGH
    futs = {}
    for name, lits in sets.items():
        text = lit.render(lits)
        for cfg in cfgs:
            futs[(name, cfg[0])] = pool.submit(_run_program, build, d, name, text, cfg)
    return sets, cfgs, futs


def literal_collect(chk, sets, cfgs, futs):
    events = []
    libc_mismatch = 0
    nobs = 0
    for name, lits in sets.items():
        events.append({"ev": "Reset"})
        for ci, cfg in enumerate(cfgs):
            cname, opts, route, folded, reload = cfg
            r = futs[(name, cname)].result()
            if not r["ok"]:
                if ci == 0 or (not folded and r["stage"] in ("cc", "compile")):
                    # nothing is folded here, so no constant of ours is in the generated code: the tool chain is broken
                    raise vlib.MachineryError("configuration %s cannot build program %s: %s" % (cname, name, r))
                events.append({"ev": "NoObs", "program": name, "cfg": cname, "route": route, "stage": r["stage"],
                               "rc": r["rc"], "detail": r["out"]})
                continue
            obs = r["obs"]
            for i, (kind, txt, expect, neg) in enumerate(lits, 1):
                o = obs.get((kind, i))
                text = ("-" if neg else "") + txt
                if o is None:
                    if ci == 0:
                        raise vlib.MachineryError("reference run of %s printed nothing for literal %d" % (name, i))
                    events.append({"ev": "NoObs", "program": "%s literal %d (%s)" % (name, i, text), "cfg": cname,
                                   "route": route, "stage": "missing line", "rc": 0, "detail": ""})
                    continue
                events.append({"ev": "Lit", "k": kind, "input": "%s:%d" % (name, i), "cfg": cname, "route": route,
                               "folded": folded, "reload": reload, "sign": o["sign"], "exp": o["exp"], "frac": o["frac"],
                               "idok": o["idok"], "lit": text})
                nobs += 1
                if ci == 0:
                    chk.case("lit:%s:%s" % (kind, text), nontrivial=True)
                    if expect is not None:
                        sb = 63 if kind == "D" else 31
                        ep = lit.expected_parts(kind, expect ^ ((1 << sb) if neg else 0))
                        if (ep["sign"], ep["exp"], ep["frac"]) != (o["sign"], o["exp"], o["frac"]):
                            libc_mismatch += 1
    return events, {"programs": {k: len(v) for k, v in sets.items()}, "configurations": [c[0] for c in cfgs],
                    "observations": nobs, "libc_literal_roundtrip_mismatch(drift)": libc_mismatch}


def _private_build(d):
    """The build cache is shared with concurrently running checks and evicts old entries: work on private
    copies of the three artefacts this check executes or links (compiler, C run-time, harness)."""
    import shutil
    last = None
    for attempt in range(3):
        try:
            b = vlib.vbuild()
            h = vlib.harness_build("xfloat_drv", [os.path.join(vlib.VERIF, "harness/xfloat_drv.c")], b)
            pb = dict(b)
            for k in ("aldor", "rt"):
                dst = os.path.join(d, "build-" + os.path.basename(b[k]))
                shutil.copy2(b[k], dst)
                pb[k] = dst
            h2 = os.path.join(d, "xfloat_drv")
            shutil.copy2(h, h2)
            return pb, h2
        except (IOError, OSError) as ex:      # evicted under our feet: build again
            last = ex
    raise vlib.MachineryError("cannot obtain a private copy of the build: %s" % last)


# --------------------------------------------------------------------------- the check

def run(chk, tier):
    quick = tier == "quick"
    d = vlib.scratch("c19")
    b, h = _private_build(d)
    totals = {"drift": 0, "inset": {"S": 0, "D": 0}, "counts": {}, "cards": None, "drift_first": []}
    pool = cf.ThreadPoolExecutor(max_workers=12 if quick else 18)

    # (A) the design: TLC on XFloat.tla
    if quick:
        models = [("XFloat", "XFloatSmallQuick", 4, True), ("XFloat", "XFloatSFQuick", 4, False),
                  ("XFloat", "XFloatDFQuick", 4, False), ("BitField", "BitFieldSmall", 2, False)]
    else:
        models = [("XFloat", "XFloatDF", 6, False), ("XFloat", "XFloatSmall", 2, True), ("XFloat", "XFloatSF", 3, False),
                  ("XFloat", "XFloatSFX", 2, False), ("XFloat", "XFloatDFX", 3, False),
                  ("BitField", "BitFieldSmall", 1, False), ("BitField", "BitFieldReal", 2, False)]
    mfut = [(m, pool.submit(vlib.tlc, mod, m, workers=w, coverage=cov, timeout=1750, xmx="6g", xss="256m",
                            env={"JAVA_TOOL_OPTIONS": "-XX:ParallelGCThreads=4 -XX:CICompilerCount=2"}))
            for mod, m, w, cov in models]

    # (C) the real routines: enumerated, random and foreign patterns through harness/xfloat_drv.c
    fam = ("lite", "mini") if quick else ("boundary", "lite")
    nrand = 2500 if quick else 100000
    jobs = [pool.submit(_harness, h, ["enum", fam[0], "none"], os.path.join(d, "enumS.ndjson")),
            pool.submit(_harness, h, ["enum", "none", fam[1]], os.path.join(d, "enumD.ndjson")),
            pool.submit(_harness, h, ["rand", chk.seed, nrand, nrand], os.path.join(d, "rand.ndjson")),
            pool.submit(_harness, h, ["xenum", "mini" if quick else "boundary"], os.path.join(d, "xenum.ndjson"))]
    lsub = literal_submit(chk, b, d, tier, pool)
    afut = []
    if not quick:
        mfut.append(("XFloatApaAgree", pool.submit(vlib.tlc, "XFloatApaAgree", "XFloatApaAgree", workers=2, timeout=900,
                                                   xmx="3g", xss="256m")))
        afut = [pool.submit(_apalache, n, d) for n in ("SF", "DF")]
    if not quick:
        # thorough: all 2^32 singles and 2^29 random doubles, compared in C with the identity TLC established
        for k in range(16):
            jobs.append(pool.submit(_harness, h, ["sweep", 16 * k, 16 * (k + 1), 1 << 20],
                                    os.path.join(d, "sweep%02d.ndjson" % k), 6000))
        for k in range(8):
            jobs.append(pool.submit(_harness, h, ["dsweep", chk.seed * 8 + k, 1 << 26, 1 << 17],
                                    os.path.join(d, "dsweep%02d.ndjson" % k), 6000))

    # validate: first the cheap generators (ready at once), the sweeps as they finish
    vfuts = []
    for j in jobs[:4]:
        p = j.result()
        tag = os.path.basename(p)[:-7]
        nch = {"enumS": 1 if quick else 4, "enumD": 2 if quick else 16, "rand": 1 if quick else 12,
               "xenum": 1 if quick else 4}[tag]
        for cp in _split(p, nch, d, tag):
            vfuts.append((os.path.basename(cp), cp, pool.submit(_validate, cp)))
    levents, linfo = literal_collect(chk, *lsub)
    lp = os.path.join(d, "literals.ndjson")
    vlib.write_ndjson(lp, levents)
    vfuts.append(("literals", lp, pool.submit(_validate, lp)))
    for j in jobs[4:]:
        p = j.result()
        vfuts.append((os.path.basename(p)[:-7], p, pool.submit(_validate, p)))

    npat = {"S": set(), "D": set()}
    for what, p, f in vfuts:
        res = f.result()
        events = _read_events(p)
        absorb(chk, res, events, what, totals)
        for e in events:
            if e.get("ev") == "F":
                npat[e["k"]].add(bytes(e["x"]))
            elif e.get("ev") == "X":
                npat[e["k"]].add(bytes(e["y"]))
        if what.startswith("rand") and len(chk.samples) < 3:
            chk.sample({k: events[0][k] for k in ("k", "x", "xs", "back", "cls", "exp")})
    for e in levents:
        if e.get("ev") == "Lit" and e["cfg"] == "q2-c" and len(chk.samples) < 6:
            chk.sample({k: e[k] for k in ("k", "lit", "cfg", "sign", "exp", "frac")})

    for m, f in mfut:
        r = f.result()
        chk.add_tlc(m, r)
        if r.violated:
            chk.violation("the model of xfloat.c/util.c violates %s (%s)" % (r.violated, m), r.trace_text,
                          key={"model": m, "inv": r.violated})
        if r.coverage:
            dead = [a for a in MODEL_ACTIONS if r.coverage.get(a, (0, 0))[0] == 0]
            if dead:
                raise vlib.MachineryError("XFloat actions never taken in %s: %s" % (m, dead))

    for f in afut:
        a = f.result()
        chk.extra.setdefault("apalache", []).append(a)
        if a["outcome"] == "Error":
            chk.violation("Apalache found a counterexample to the identities in %s" % a["module"], a,
                          key={"model": a["module"], "inv": "Inv"})

    # every pattern of the model's enumeration met the implementation
    cards = totals["cards"]
    if cards is None:
        raise vlib.MachineryError("no trace summary")
    want = {"S": cards[fam[0]]["S"], "D": cards[fam[1]]["D"]}
    if totals["inset"] != want:
        raise vlib.MachineryError("enumeration mismatch: TLC counts %s logged patterns inside its families, "
                                  "the families have %s" % (totals["inset"], want))

    swept = totals["counts"].get("swept", 0) * 65536
    nev = len(npat["S"]) + len(npat["D"])
    chk.evaluations += nev + swept
    chk.distinct_count_extra += nev + swept
    chk.extra["patterns_through_tlc"] = {"singles": len(npat["S"]), "doubles": len(npat["D"])}
    chk.extra["event_counts"] = totals["counts"]
    chk.extra["enumeration_families"] = {"singles": fam[0], "doubles": fam[1], "matched_in_model_family": totals["inset"]}
    chk.extra["swept_in_C_against_the_TLC_identity"] = swept
    chk.extra["literals"] = linfo
    chk.extra["drift"] = {"intermediate_mismatches": totals["drift"], "first": totals["drift_first"][:3]}
    chk.rule = ("one case per distinct bit pattern put through the real routines and judged by TLC (native: sign x every "
                "exponent x fraction family + seeded random; portable: exponents around every branch boundary x family), "
                "plus one per distinct literal text observed under all configurations; sweep patterns (thorough) are "
                "compared in C with the identity that TLC established on the model and counted separately")
    chk.exhaustive = False
    chk.assumptions += [
        "IEEE little-endian host with 32-bit SFloat (cport.h: SF_HasNANs = SF_HasNorm1 = 1, SF_LgLgBase = 0); the "
        "VAX/370 branches of xfloat.c are not compiled here and not modelled",
        "decimal->binary conversion is libc atof on both sides; its correct rounding is not modelled",
        "the upper half of the word written by fiSFloDissemble is indeterminate and not part of an observation",
        "2^32 sweep (thorough tier only): compared in C with the identity established by TLC on XFloat.tla; failing "
        "patterns and a regular sample are judged by TLC",
    ]
    pool.shutdown()


def replay(d):
    """verif replay C19 <file>: put the pattern / literal of a recorded violation through the machinery again."""
    key = d.get("key") or {}
    b = vlib.vbuild()
    sd = vlib.scratch("c19r")
    if key.get("ev") in ("F", "X"):
        h = vlib.harness_build("xfloat_drv", [os.path.join(vlib.VERIF, "harness/xfloat_drv.c")], b)
        kind = ("X" if key["ev"] == "X" else "") + key["kind"]
        inp = os.path.join(sd, "in.txt")
        open(inp, "w").write("%s %s\n" % (kind, key.get("x") or key.get("y")))
        out = _harness(h, ["file", inp], os.path.join(sd, "out.ndjson"))
        print(open(out).read())
        r = _validate(out)
        print("\n".join(p for p in r.printed if isinstance(p, str)))
        return 1 if _postcondition_false(r) else 0
    if key.get("ev") in ("Lit", "NoObs"):
        ev = (d.get("detail") or {}).get("event") or {}
        text = ev.get("lit", "0.0")
        kind = key.get("kind", "D")
        neg = text.startswith("-")
        prog = lit.render([(kind, text.lstrip("-"), None, neg)])
        print(prog.split("\n\n")[-1])
        for cfg in CFGS_THOROUGH:
            r = _run_program(b, sd, "replay", prog, cfg)
            print(cfg[0], r)
        return 0
    print("nothing to replay for this key")
    return 0


SELFTEST_NOTES = """
Binding demonstration (2026-10-04, quick tier, scratch worktree /tmp/wt-c19 via VERIF_SRC, removed afterwards).
Unchanged tree: held with VERIF_SEED=20261004 and 12345 (two KNOWN-FINDING lines, see known_findings.jsonl); with both
candidate patches hooks/fix-c19-*.diff applied: held with no KNOWN-FINDING line (VERIF_SEED=7).

Mutations of the anchored sources (each compiles; VIOLATION = caught):
 M1 xfloat.c xsfToNative: fracDenormalize(..., SF_LgLgBase, 0) instead of SF_HasNorm1 (hidden bit not restored)
      -> VIOLATION enumS/rand: "value changed by xfFrNative/xfToNative" (subnormal singles)
 M2 xfloat.c fracNormalize: *pexponent -= ix1 (off by one)            -> VIOLATION (subnormals, both widths)
 M3 xfloat.c xdfFrNative zero case: sign replaced by false            -> VIOLATION enumD/rand (-0.0 double), also X events
 M4 of_cfold.c ArrToSFlo: strtof(s, NULL) instead of (SFloat) atof(s) (single instead of double rounding at compile time)
      -> VIOLATION literals hard:39/hard:40 ("1.000000059604644775390626", "1.0000000596046448") under q2-interp, q2-ao, q2-c
 M5 util.c DFloatSprint: DBL_DIG instead of DBL_DIG+2                 -> VIOLATION literals enumD:* under q2-c
 M6 xfloat.c xsfToNative overflow test `>' instead of `>='            -> not a violation (no native value is affected; C19 does
      not speak about files written elsewhere); reported as drift: X events "nat" differs from XToNative (483.. of xenum)
 M7 foam_c.c fiDFloAssemble: sig0/sig1 swapped                        -> VIOLATION enumD "fiFloAssemble(fiFloDissemble(x)) differs from x"
 M8 foam.c foamToBuffer case 'f': bufWrSFloat(buf, (SFloat)(x + 0.0)) -> VIOLATION enumS/rand "value changed by foamToBuffer/foamFrBuffer"
      and literal -0.0 under q2-interp/q2-ao-interp
Corrupted records (TraceXFloat, POSTCONDITION Accepted false = rejected):
 one byte of `back' of a normal single flipped -> VIOL "value changed by xfFrNative/xfToNative"; top bit of `fasm' flipped ->
 VIOL "fiFloAssemble(fiFloDissemble(x)) differs from x"; {"ev":"Fault"} inserted -> end of trace not reached, rejected;
 one fraction byte of a q2-ao-interp literal observation changed -> VIOL "the literal denotes different values under two
 configurations"; idok set to 0 -> VIOL "assemble(dissemble(x)) differs from x in the running program".
 A flipped low bit in `back' of a NaN, or a flipped byte of `xs', is (correctly) drift only.
Coverage: XFloatSmall runs with -coverage 1; the check fails as machinery error if any of the 11 actions
 (4 Save branches, 5 Load branches, TakeApart, Reassemble) has taken = 0.
After the last edits of the check (private build copies, smaller quick families) M2 and M3 were run again: still VIOLATION.
`bin/verif replay C19 replays/C19/quick-0.json` (a -0.0 double recorded under M3) re-runs the pattern on the current tree:
accepted, i.e. the unchanged tree keeps it.
Thorough tier, unchanged tree, machine shared with four other builders (load average 150-300): held, 2617 s wall,
55.8 CPU-minutes; TLC: XFloatSmall 142336, XFloatSF 506880, XFloatSFX 173424, XFloatDF 2523136, XFloatDFX 485104,
BitFieldSmall 27072, BitFieldReal 87032, XFloatApaAgree 33790 distinct states, no violation; 61 traces (664620 events:
483648 F, 151672 X, 28884 Lit over 10 configurations, 288 Sweep) accepted with 0 drift; all 2^32 singles and 2^29 random
doubles compared in C with the identity (0 failures); Apalache: XFloatApaSF NoError (309 s; 32 s on a quiet machine),
XFloatApaDF NoError (758 s; 77 s quiet) -- the identities hold for every single and every double pattern of the integer
formulation, which TLC ties to the bit-level model on the scaled format (XFloatApaAgree).
Model development notes: 0 drift on the unchanged tree over all enumerated/random/foreign events, i.e. the transcription
 reproduces class, sign, exponent, fraction bytes, portable bytes and loaded value of the real code everywhere it was tried.
"""
