"""C04 -- every builtin operation means the same wherever it is evaluated.

Decided by spec/Builtins.tla (signature table + mathematical definition over Bool, character codes,
Word(W) on BigZ, BigZ), spec/Word.tla, and TLC:

 (A) design checks: WordCheck (word algebra at W = 8 / 13 against TLC's native integers) and BuiltinsCheck
     (every definition at SIntW = 8 against native arithmetic and algebraic laws), exhaustive over the pairs.
 (B) replay: BuiltinsGen enumerates, per builtin, the boundary product of its argument types inside the
     domain, evaluates Def and exports the expected table; BuiltinsEval does the same for seeded random tuples.
     gen/builtins.py renders each case as an application on literal constants in an Aldor program importing
     the operation from Builtin; each program runs three ways: -Q0 interpreted (fint.c evaluates),
     -Q2 interpreted (of_cfold.c folds), -Q0 C executable (genc mapping + foam_c.h/foam_c.c evaluate).
     Where the specification gives a value all three must print it; elsewhere (floating point, documented
     "no meaning" argument tuples) the three must agree, which TLC decides through Obs (Observe events).
 (C) traces: hook H4 (hooks/H4-builtins.diff) makes of_cfold.c and fint.c emit one BCall event per builtin
     application; spec/TraceBuiltins.tla validates each event with Def.  The cfold events also confirm, case
     by case, that the fold really happened.  Without the hook the check still decides the property through
     (B) and reports hooks_missing.
"""
import collections
import concurrent.futures
import json
import os
import random
import re
import sys
import time

import vlib
from gen import builtins as G

META = {
    "title": "Every builtin operation means the same wherever it is evaluated",
    "level": "model_checking",
    "technique": "TLC: exhaustive small-width model of the word/builtin algebra; TLC-generated expected table over "
                 "the boundary product replayed on three evaluators; TLC trace validation of hook events",
    "design_ref": "DESIGN.md §5 C04, §3.2, §4.2 (H4), Appendix A (TraceBCall), Appendix D",
    "level_text": "the definitions are model checked exhaustively at width 8 against native integers; at the real "
                  "width every case of the (strided in quick) boundary product is executed on all three evaluators "
                  "against the value TLC computed",
    "level_note": "binding is by replay of TLC-generated cases and by validation of recorded BCall events",
}

BATCH = 1500
EVAL = G.MODE_EVALUATOR           # mode -> evaluator name used in finding keys
SFLO_MASK_OPS_NOTE = ("floating-point results are observed through [SD]FloDissemble (sign, exponent, all fraction words) "
                      "and compared in full between the evaluators")


# ------------------------------------------------------------------ helpers

_T0 = time.time()


def _log(msg):
    if os.environ.get("VERIF_VERBOSE"):
        print("[c04 %6.1fs] %s" % (time.time() - _T0, msg), file=sys.stderr, flush=True)


def _cfg(text):
    d = vlib.scratch("c04cfg")
    p = os.path.join(d, "gen.cfg")
    with open(p, "w") as fh:
        fh.write(text)
    return p


def private_build(build):
    """The build cache keeps only the three most recent entries and is shared by all checks: a long run can lose its
    compiler to another check's build.  Work on a private copy of the two artefacts this check uses."""
    import shutil
    d = vlib.scratch("c04bin")
    b = dict(build)
    for k in ("aldor", "rt"):
        dst = os.path.join(d, os.path.basename(build[k]))
        shutil.copy2(build[k], dst)
        b[k] = dst
    return b


def gen_cfg(stride, stride3, offset, ops=()):
    return _cfg("SPECIFICATION Spec\nCONSTANTS SIntW = 64\n          WordW = 64\n          Stride = %d\n"
                "          Stride3 = %d\n          Offset = %d\n          OpFilter = {%s}\nCHECK_DEADLOCK FALSE\n"
                % (stride, stride3, offset, ", ".join('"%s"' % o for o in ops)))


def tlc_or_die(chk, name, module, cfg, **kw):
    kw.setdefault("extra", ("-noGenerateSpecTE",))
    r = vlib.tlc(module, cfg, **kw)
    chk.add_tlc(name, r)
    return r


def canon_line(op, line, sig):
    """Projection of a printed line onto what is compared.  Until /repo 18659d0 the fraction words returned by
    fi[SD]FloDissemble carried uninitialised bits and were masked here; they are compared in full now."""
    return line


def run_cases(build, cases, sig, workdir, tag, want_cfold, want_fint_batches, modes=G.MODES, variable_first=False,
              batch=BATCH):
    """Run all cases in batches (in parallel); evaluator crashes end a batch early: the crashing case is recorded
    and the remaining cases are re-run.  Returns (obs, crashes, cfold_files, fint_files) where
    obs[i] = {mode: line or None}."""
    obs = [dict() for _ in cases]
    crashes = []                      # (case index, mode, stderr tail)
    cfold_files, fint_files = [], []
    jobs = []
    for bi in range(0, len(cases), batch):
        jobs.append(list(range(bi, min(len(cases), bi + batch))))

    def one(job_no, idxs):
        name = "%s%04d" % (tag, job_no)
        trace = {}
        if want_cfold:
            trace["q2i"] = (os.path.join(workdir, name + ".cfold.nd"), "cfold")
        if job_no < want_fint_batches:
            trace["q0i"] = (os.path.join(workdir, name + ".fint.nd"), "fint")
        todo = {m: list(idxs) for m in modes}
        local_obs = {}
        local_crash = []
        attempt = 0
        while any(todo.values()) and attempt < 12:
            attempt += 1
            # all modes run the same program; when one mode crashed, only that mode re-runs the remainder
            pending_modes = [m for m in modes if todo[m]]
            groups = collections.OrderedDict()
            for m in pending_modes:
                groups.setdefault(tuple(todo[m]), []).append(m)
            for sub, ms in groups.items():
                batch = [cases[i] for i in sub]
                nm = name if attempt == 1 else "%sr%d%s" % (name, attempt, "".join(ms))
                tr = {m: trace[m] for m in ms if m in trace}
                res = G.run_batch(build, batch, sig, workdir, nm, modes=ms, trace=tr, variable_first=variable_first)
                for m in ms:
                    lines = res[m]["lines"]
                    for k, i in enumerate(sub):
                        if k < len(lines):
                            local_obs.setdefault(i, {})[m] = lines[k]
                    if res[m]["complete"]:
                        todo[m] = []
                    else:
                        k = min(len(lines), len(sub) - 1)
                        # the case that was being evaluated when the evaluator stopped
                        if len(lines) < len(sub):
                            local_crash.append((sub[k], m, "rc=%s %s" % (res[m]["rc"], res[m]["stderr"][-200:])))
                            local_obs.setdefault(sub[k], {})[m] = None
                            todo[m] = list(sub[k + 1:])
                        else:
                            todo[m] = []      # all lines present, non-zero status at exit: recorded below
                            local_crash.append((sub[-1], m, "exit status %s after the last case" % res[m]["rc"]))
        for f in os.listdir(workdir):
            if (f.startswith(name + ".") or f.startswith(name + "-") or f.startswith(name + "r")) and not f.endswith(".nd"):
                try:
                    os.unlink(os.path.join(workdir, f))
                except OSError:
                    pass
        return local_obs, local_crash, trace

    with concurrent.futures.ThreadPoolExecutor(max_workers=max(2, min(16, vlib.NCPU))) as ex:
        futs = [ex.submit(one, n, idxs) for n, idxs in enumerate(jobs)]
        for f in futs:
            lo, lc, tr = f.result()
            for i, d in lo.items():
                obs[i].update(d)
            crashes += lc
            if "q2i" in tr:
                cfold_files.append(tr["q2i"][0])
            if "q0i" in tr:
                fint_files.append(tr["q0i"][0])
    return obs, crashes, cfold_files, fint_files


def validate_trace(chk, events, workdir, name, nchunks):
    """Run TraceBuiltins over the events (split into chunks, one TLC -workers 1 each, in parallel).
    Returns (summary counters, [REJECT dicts], [DISAGREE dicts])."""
    if not events:
        return collections.Counter(), [], []
    nchunks = max(1, min(nchunks, (len(events) + 1999) // 2000))
    # Observe events of one input must stay in one chunk: chunk by input for Observe, round-robin otherwise
    chunks = [[] for _ in range(nchunks)]
    for k, e in enumerate(events):
        if e.get("ev") == "Observe":
            chunks[hash(e["input"]) % nchunks].append(e)
        else:
            chunks[k % nchunks].append(e)
    paths = []
    for k, c in enumerate(chunks):
        p = os.path.join(workdir, "%s.%d.ndjson" % (name, k))
        vlib.write_ndjson(p, c)
        paths.append(p)

    def one(p):
        return vlib.tlc("TraceBuiltins", "TraceBuiltins", workers=1, timeout=1500, env={"TRACE": p},
                        xmx="3g", extra=("-noGenerateSpecTE",))
    total = collections.Counter()
    rejects, disagrees = [], []
    with concurrent.futures.ThreadPoolExecutor(max_workers=min(8, nchunks)) as ex:
        for k, r in enumerate(ex.map(one, paths)):
            chk.add_tlc("%s[%d]" % (name, k), r)
            if r.violated:
                raise vlib.MachineryError("trace %s chunk %d: unknown event kind (%s)" % (name, k, r.violated))
            summ = None
            for line in r.printed:
                if line.startswith("SUMMARY "):
                    summ = json.loads(line[8:])
                elif line.startswith("REJECT "):
                    rejects.append(json.loads(line[7:]))
                elif line.startswith("DISAGREE "):
                    disagrees.append(json.loads(line[9:]))
            if summ is None:
                raise vlib.MachineryError("trace %s chunk %d not validated to the end:\n%s" % (name, k, r.out[-1500:]))
            total.update({k2: v for k2, v in summ.items()})
    return total, rejects, disagrees


def event_argclass(e, sig):
    s = sig.get(e["op"])
    if not s:
        return "-"
    args = []
    for v, t in zip(e["args"], s["args"]):
        if "b" in v:
            args.append(bool(v["b"]))
        elif "c" in v:
            args.append(v["c"])
        elif "i" in v:
            args.append(G.z_of(v["i"]))
        elif "s" in v:
            args.append("".join(chr(x) for x in v["s"]))
        else:
            args.append(v.get("f"))
    try:
        return G.argclass(e["op"], args, sig)
    except Exception:
        return "-"


def random_cases(rng, sig, n):
    """Seeded random argument tuples beyond the boundary product, in the encoding BuiltinsEval reads."""
    def rint(bits, signed=True):
        w = rng.choice([bits, bits, bits // 2, 8, 3])
        v = rng.getrandbits(w)
        if signed and rng.random() < 0.5:
            v = -v
        return v
    ops = [o for o, s in sig.items() if s["defined"] and s["args"] and
           all(t in ("Bool", "Char", "SInt", "BInt", "Word", "HInt", "Byte") for t in s["args"])
           and o not in ("CharNum",)]
    out = []
    for _ in range(n):
        o = rng.choice(ops)
        args = []
        for k, t in enumerate(sig[o]["args"]):
            if t == "Bool":
                args.append(rng.random() < 0.5)
            elif t == "Char":
                args.append(rng.randrange(128))
            elif t == "SInt":
                if o in ("SIntShiftUp", "SIntShiftDn", "SIntBit") and k == 1:
                    args.append(G.zj(rng.randrange(64)))
                elif o.startswith("BInt") and k >= 1:
                    args.append(G.zj(rng.randrange(0, 90)))
                elif o in ("SIntPlusMod", "SIntMinusMod", "SIntTimesMod"):
                    if k == 0:
                        n3 = rng.getrandbits(rng.choice([63, 62, 33, 16, 5])) + 1
                        args = [G.zj(rng.randrange(n3)), G.zj(rng.randrange(n3)), G.zj(n3)]
                        break
                else:
                    v = rint(63)
                    args.append(G.zj(v))
            elif t == "Word":
                args.append(G.zj(rng.getrandbits(rng.choice([64, 64, 32, 5]))))
            elif t == "HInt":
                args.append(G.zj(rng.randrange(-32768, 32768)))
            elif t == "Byte":
                args.append(G.zj(rng.randrange(256)))
            elif t == "BInt":
                if o == "BIntBIPower" and k == 1:
                    args.append(G.zj(rng.randrange(0, 40)))
                else:
                    args.append(G.zj(rint(rng.choice([200, 130, 64, 40]))))
        out.append({"op": o, "args": args})
    return out


# ------------------------------------------------------------------ the check

def run(chk, tier):
    thorough = tier == "thorough"
    rng = random.Random(chk.seed)
    build = private_build(vlib.vbuild())
    work = vlib.scratch("c04")
    chk.rule = ("one case = (builtin, argument tuple, evaluator); tuples come from the per-type boundary sets "
                "(0, +-1, 2^k, 2^k+-1 for all k below the word size, limits, signs; both booleans; 128 characters), "
                "binary products %s, plus seeded random tuples; a case is non-trivial when the specification "
                "defines its value (otherwise it is an agreement case)" %
                ("on a 1/%d stride of the index grid plus the full product of the core sets" %
                 (int(os.environ.get("VERIF_C04_STRIDE", "5")) if thorough else 401)))
    chk.assumptions += [
        "platform of the binding: LP64 (SInt and Word are 64 bit two's complement, HInt 16 bit, Byte 8 bit unsigned, "
        "Char unsigned 8 bit); gcc -O0 wraps signed overflow",
        "where the user guide is silent the definition follows the run-time (foam_c.h, foam_i.c): quo truncates, "
        "rem and mod carry the dividend's sign (SIntMod is C %, BIntMod and BIntRem are one function), shiftDown of "
        "SInt is arithmetic, BInt shifts and bit tests act on the magnitude, single?(b) is |b| < 2^63, "
        "SIntMinusMod is the C remainder of the exact difference",
        "no definition (agreement of the three evaluators only): floating point, CharMin/CharMax, SIntTimesModInv, "
        "BIntShiftRem, 'except OFLOW' conversions outside the target range, BIntBit of a negative integer, "
        "BIntLength(0), ArrToBInt of radix text, scan of text that is not a number",
        "constants are written through SingleInteger/Integer literals (ArrToSInt/ArrToBInt), unary minus "
        "(SIntNegate/BIntNegate), SIntPrev for -2^63, CharNum for characters; results are printed through "
        "formatSInt/formatBInt (one C function for all evaluators), CharOrd, [SD]FloDissemble",
        SFLO_MASK_OPS_NOTE,
    ]

    # ---------------- TLC: (A) the model of the algebra at small width and (B) the expected table, run concurrently
    stride = int(os.environ.get("VERIF_C04_STRIDE", "5")) if thorough else 401
    stride3 = 2 if thorough else 61
    offset = chk.seed % 9973
    t0 = time.time()
    r = tlc_or_die(chk, "BuiltinsSig", "BuiltinsSig", "BuiltinsSig", workers=1, timeout=600)
    sig = G.parse_sig(r.printed)
    names = sorted(sig)
    chk.extra["drift"] = table_drift(sig)          # against foamBValInfoTable, information only

    nrand = 6000 if thorough else 1000
    rp = os.path.join(work, "random.ndjson")
    vlib.write_ndjson(rp, random_cases(rng, sig, nrand))
    # thorough: several generator runs over disjoint groups of operations keep the printed table of one run small
    ngroups = 8 if thorough and stride < 16 else 1
    groups = [[] for _ in range(ngroups)]
    for k, o in enumerate(names):
        groups[k % ngroups].append(o)
    ncpu = vlib.NCPU
    model = ([("WordCheck8b", "WordCheck", "WordCheckQuick", max(2, ncpu // 4)),
              ("BuiltinsCheck8b", "BuiltinsCheck", "BuiltinsCheckQuick", max(2, ncpu // 2))] if not thorough else
             [("WordCheck8", "WordCheck", "WordCheck", ncpu // 2), ("WordCheck13", "WordCheck", "WordCheck13", 2),
              ("BuiltinsCheck8", "BuiltinsCheck", "BuiltinsCheckThorough", ncpu)])
    jobs = [(n, m, c, dict(workers=w, timeout=4000 if thorough else 900)) for n, m, c, w in model]
    jobs.append(("BuiltinsEval", "BuiltinsEval", "BuiltinsEval", dict(workers=2, timeout=1800, env={"CASES": rp})))
    for gi, ops in enumerate(groups):
        jobs.append(("BuiltinsGen[%d]" % gi, "BuiltinsGen", gen_cfg(stride, stride3, offset, ops if ngroups > 1 else ()),
                     dict(workers=ncpu if thorough else max(2, ncpu // 2), timeout=5400 if thorough else 900, xmx="14g")))

    def tlc_job(j):
        kw = dict(j[3])
        kw.setdefault("extra", ("-noGenerateSpecTE",))
        return vlib.tlc(j[1], j[2], **kw)
    with concurrent.futures.ThreadPoolExecutor(max_workers=4 if not thorough else 2) as ex:
        results = list(ex.map(tlc_job, jobs))
    cases, rcases = [], []
    for j, r in zip(jobs, results):
        chk.add_tlc(j[0], r)
        if j[1] in ("WordCheck", "BuiltinsCheck"):
            if r.violated:
                chk.violation("the definitions are inconsistent with native arithmetic at small width: %s of %s"
                              % (r.violated, j[1]), r.trace_text, key={"model": j[1], "inv": r.violated})
                return
            continue
        if r.violated:
            raise vlib.MachineryError("%s stopped: %s\n%s" % (j[0], r.violated, r.trace_text[:2000]))
        (rcases if j[1] == "BuiltinsEval" else cases).extend(G.parse_cases(r.printed, sig))
        r.printed = []
        r.out = ""
    chk.extra["tlc_s"] = round(time.time() - t0, 1)
    seen = set((c["op"], json.dumps(c["args"])) for c in cases)
    rcases = [c for c in rcases if (c["op"], json.dumps(c["args"])) not in seen]
    for c in rcases:
        c["random"] = True
    cases += rcases
    if len(cases) < 3000:
        raise vlib.MachineryError("only %d cases exported by TLC" % len(cases))

    _log("%d cases from TLC" % len(cases))
    # ---------------- run on the three evaluators
    t0 = time.time()
    order = list(range(len(cases)))
    rng.shuffle(order)                 # mixes operations over batches (even batch cost); order is seed-determined
    cases = [cases[i] for i in order]
    # one representative of every (builtin, argument class) goes into the first batches, whose interpreter run is
    # traced (fint hook): every class of every builtin is then also validated as a recorded event
    seen_cls, reps, rest = set(), [], []
    for c in cases:
        k = (c["op"], G.argclass(c["op"], c["args"], sig))
        if k in seen_cls:
            rest.append(c)
        else:
            seen_cls.add(k)
            reps.append(c)
    cases = reps + rest
    nfint = min(3, (len(reps) + BATCH - 1) // BATCH) if not thorough else 12
    chk.extra["argument_classes"] = len(reps)
    # fourth route, run at the same time: -Q2 with a non-constant first operand (the algebraic simplifier
    # of_peep.c rewrites the application, e.g. times 2^k -> shift; the folder cannot evaluate it)
    vsel = [i for i, c in enumerate(cases) if c["res"] is not None and sig[c["op"]]["args"]
            and sig[c["op"]]["args"][0] in ("SInt", "BInt", "Bool")
            and c["op"] not in ("FormatSInt", "FormatBInt")]
    vreps = [i for i in vsel if i < len(reps)]          # every argument class of every eligible builtin
    vrest = [i for i in vsel if i >= len(reps)]
    vsel = vreps + (vrest[chk.seed % 3::3] if thorough else vrest[chk.seed % 4::4])
    vcases = [cases[i] for i in vsel]
    with concurrent.futures.ThreadPoolExecutor(max_workers=2) as ex2:
        f_main = ex2.submit(run_cases, build, cases, sig, work, "b", True, nfint)
        f_v = ex2.submit(run_cases, build, vcases, sig, work, "v", False, 0, ("q2v",), True, 300)
        obs, crashes, cfold_files, fint_files = f_main.result()
        vobs, vcrashes, _, _ = f_v.result()    # batches of 300: the optimiser is quadratic in the size of such a program
    chk.extra["run_s"] = round(time.time() - t0, 1)

    _log("three routes run")
    # ---------------- compare (specified: equality with the TLC table; unspecified: Observe events for TLC)
    viol = collections.OrderedDict()       # key tuple -> [detail...]

    def add(key, detail):
        viol.setdefault(key, []).append(detail)

    observe_events = []
    per_op = collections.Counter()
    n_spec = n_unspec = 0
    for i, c in enumerate(cases):
        op = c["op"]
        exp = G.expected_line(c, sig)
        acl = G.argclass(op, c["args"], sig)
        per_op[op] += 1
        for m in G.MODES:
            got = obs[i].get(m, "<not run>")
            chk.evaluations += 1
            if exp is not None:
                n_spec += 1
                chk.distinct_count_extra += 1          # (op, args, route) triples are distinct by construction
                if got != exp:
                    add((op, EVAL[m], acl), {"args": c["args"], "required": exp, "observed": got, "route": m,
                                             "random": bool(c.get("random"))})
            else:
                n_unspec += 1
                if got is None or got == "<not run>":
                    add((op, EVAL[m], acl), {"args": c["args"], "required": "a result (agreement case)",
                                             "observed": "evaluator stopped", "route": m})
                else:
                    observe_events.append({"ev": "Observe", "input": "%s %s" % (op, json.dumps(c["args"])),
                                           "cfg": m, "digest": G.digest_words(canon_line(op, got, sig))})
    # ---------------- fourth route (q2v): compare
    chk.extra["cases_q2v"] = len(vcases)
    for k, c in enumerate(vcases):
        exp = G.expected_line(c, sig)
        got = vobs[k].get("q2v", "<not run>")
        chk.evaluations += 1
        chk.distinct_count_extra += 1
        if got != exp:
            add((c["op"], "q2v", G.argclass(c["op"], c["args"], sig)),
                {"args": c["args"], "required": exp, "observed": got, "route": "q2v"})
    for (k, m, why) in vcrashes:
        c = vcases[k]
        add((c["op"], "q2v", G.argclass(c["op"], c["args"], sig)),
            {"args": c["args"], "required": G.expected_line(c, sig), "observed": "evaluator stopped: " + why, "route": m})

    for (i, m, why) in crashes:
        c = cases[i]
        add((c["op"], EVAL[m], G.argclass(c["op"], c["args"], sig)),
            {"args": c["args"], "required": G.expected_line(c, sig) or "a result", "observed": "evaluator stopped: " + why,
             "route": m})
    chk.extra["cases"] = len(cases)
    chk.extra["cases_specified_x_routes"] = n_spec
    chk.extra["cases_agreement_x_routes"] = n_unspec
    chk.extra["builtins_covered"] = len(per_op)
    chk.extra["random_cases"] = len(rcases)
    for c in cases[:3]:
        chk.sample({"op": c["op"], "args": [str(a) for a in c["args"]], "tlc": G.expected_line(c, sig)})

    _log("q2v route run")
    # ---------------- (C) hook events
    dedupe = set()
    cfold_events, n_cfold_raw = [], 0
    for f in cfold_files:
        ev, n = G.convert_events(f, dedupe)
        cfold_events += ev
        n_cfold_raw += n
    fint_events, n_fint_raw = [], 0
    for f in fint_files:
        ev, n = G.convert_events(f, dedupe)
        fint_events += ev
        n_fint_raw += n
    hooks_missing = []
    if not n_cfold_raw:
        hooks_missing.append("cfold")
    if not n_fint_raw:
        hooks_missing.append("fint")
    chk.extra["hooks_missing"] = hooks_missing
    chk.extra["hook_events"] = {"cfold_raw": n_cfold_raw, "cfold_distinct": len(cfold_events),
                                "fint_raw": n_fint_raw, "fint_distinct": len(fint_events)}
    # which cases did the folder really evaluate?
    folded_keys = set()
    for e in cfold_events:
        k = G.event_key(e)
        if k:
            folded_keys.add(k)
    n_fold_confirmed = 0
    fold_ops = collections.Counter()
    if "cfold" not in hooks_missing:
        for c in cases:
            k = G.case_event_key(c, sig)
            if k and k in folded_keys:
                n_fold_confirmed += 1
                fold_ops[c["op"]] += 1
        chk.extra["fold_confirmed_cases"] = n_fold_confirmed
        chk.extra["builtins_folded"] = len(fold_ops)
        chk.extra["builtins_never_folded"] = sorted(set(per_op) - set(fold_ops))[:200]
        if n_fold_confirmed == 0:
            raise vlib.MachineryError("the folder logged events but none matches a generated case: binding is broken")
    # cap the fint events by seeded sampling (every cfold event is kept)
    cap = 400000 if thorough else 15000
    if len(fint_events) > cap:
        # every event that is the application of a generated case is kept; the rest (library code) is sampled
        case_keys = set(k for k in (G.case_event_key(c, sig) for c in cases) if k)
        mine = [e for e in fint_events if G.event_key(e) in case_keys]
        other = [e for e in fint_events if G.event_key(e) not in case_keys]
        fint_events = mine + rng.sample(other, max(0, min(len(other), cap - len(mine))))
    chk.extra["hook_events"]["fint_validated"] = len(fint_events)
    events = cfold_events + fint_events + observe_events
    t0 = time.time()
    total, rejects, disagrees = validate_trace(chk, events, work, "trace", 8 if not thorough else 16)
    chk.extra["trace_s"] = round(time.time() - t0, 1)
    _log("traces validated")
    chk.extra["trace_summary"] = dict(total)
    chk.traces += len(events)
    if events and total.get("checked", 0) + total.get("observed", 0) == 0:
        raise vlib.MachineryError("trace validation checked nothing")
    for rj in rejects:
        add((rj["op"], rj["who"], event_argclass(rj, sig)),
            {"event": {"op": rj["op"], "args": rj["args"], "res": rj["res"]}, "required": rj["expected"],
             "route": "hook event (%s)" % rj["who"]})
    for dg in disagrees:
        op = dg["input"].split(" ", 1)[0]
        args = json.loads(dg["input"].split(" ", 1)[1])
        add((op, "disagree", G.argclass(op, args, sig)),
            {"args": args, "required": "the same value on all three evaluators",
             "observed": {m: obs_line(cases, obs, op, args, m) for m in G.MODES}})

    # ---------------- report, one violation per (builtin, evaluator, argument class)
    for (op, ev, acl), details in viol.items():
        key = {"builtin": op, "evaluator": ev, "argclass": acl}
        chk.violation("%s on %s differs from %s for arguments of class [%s] (%d cases), e.g. %s" %
                      (op, ev, "the other evaluators" if ev == "disagree" else "its definition", acl, len(details),
                       json.dumps(details[0], default=str)[:400]),
                      {"count": len(details), "examples": details[:10]}, key=key)
    chk.extra["violating_classes"] = len(viol)
    chk.exhaustive = thorough and stride == 1


_OBS_INDEX = {}


def obs_line(cases, obs, op, args, m):
    if not _OBS_INDEX:
        for i, c in enumerate(cases):
            _OBS_INDEX[(c["op"], json.dumps(c["args"]))] = i
    i = _OBS_INDEX.get((op, json.dumps(args)))
    return None if i is None else obs[i].get(m)


def table_drift(sig):
    """Compare arity/types of the TLA+ table with foamBValInfoTable (foam.c); information only."""
    try:
        txt = open(os.path.join(vlib.SRC, "foam.c")).read()
    except OSError:
        return ["foam.c not readable"]
    tab = txt[txt.index("struct foamBVal_info foamBValInfoTable"):]
    ents = re.findall(r'\{FOAM_BVal_(\w+),\s*0,\s*"(\w+)",\s*(\d),\s*(\d+),\s*\{([^}]*)\},\s*(\w+),\s*(\d+),\s*\{([^}]*)\}\}', tab)
    tmap = {"FOAM_Arr": "Str"}
    drift = []
    code = {}
    for tag, name, se, argc, argt, ret, nret, rett in ents:
        at = [a.strip() for a in argt.split(",") if a.strip() and a.strip() != "0"][:int(argc)]
        at = [tmap.get(a, a.replace("FOAM_", "")) for a in at]
        if ret == "FOAM_NOp":
            rt = [tmap.get(a.strip(), a.strip().replace("FOAM_", "")) for a in rett.split(",") if a.strip()][:int(nret)]
        else:
            rt = [tmap.get(ret, ret.replace("FOAM_", ""))]
        code[name] = (at, rt)
    for op, s in sig.items():
        if op not in code:
            drift.append("%s: not in foamBValInfoTable" % op)
            continue
        at, rt = code[op]
        srt = s["res"][:1] if op in ("FormatSInt", "FormatBInt") else s["res"]
        if at != s["args"] or rt != srt:
            drift.append("%s: table %s -> %s, foam.c %s -> %s" % (op, s["args"], srt, at, rt))
    return drift[:40]


def replay(d):
    """bin/verif replay C04 <file>: re-run the recorded example argument tuples of one violation on all routes and
    print the value TLC requires next to what each route printed.  Returns 1 if a difference is still observed."""
    key = d.get("key") or {}
    op = key.get("builtin")
    ex = (d.get("detail") or {}).get("examples") or []
    if not op or not ex:
        print("nothing to replay")
        return 0
    build = private_build(vlib.vbuild())
    work = vlib.scratch("c04r")
    r = vlib.tlc("BuiltinsGen", gen_cfg(1000003, 1000003, 0, [op]), workers=2, timeout=900, extra=("-noGenerateSpecTE",))
    sig = G.parse_sig(r.printed)
    s = sig[op]
    rows = []
    for e in ex:
        if "args" not in e:
            continue
        enc = []
        for v, t in zip(e["args"], s["args"]):
            enc.append(G.zj(int(v)) if t in G.INT_TYPES else ([ord(ch) for ch in v] if t == "Str" else v))
        rows.append({"op": op, "args": enc})
    if not rows:
        print("the recorded examples are hook events; re-run the check")
        return 0
    rp = os.path.join(work, "replay.ndjson")
    vlib.write_ndjson(rp, rows)
    r2 = vlib.tlc("BuiltinsEval", "BuiltinsEval", workers=2, timeout=900, env={"CASES": rp}, extra=("-noGenerateSpecTE",))
    cases = G.parse_cases(r2.printed, sig)
    res = G.run_batch(build, cases, sig, work, "replay", modes=G.MODES)
    bad = 0
    for k, c in enumerate(cases):
        exp = G.expected_line(c, sig)
        got = {m: (res[m]["lines"][k] if k < len(res[m]["lines"]) else None) for m in G.MODES}
        print("%s%s  TLC: %s  observed: %s" % (op, tuple(c["args"]), exp if exp is not None else "(agreement)", got))
        vals = set(canon_line(op, g, sig) for g in got.values())
        if (exp is not None and any(g != exp for g in got.values())) or (exp is None and len(vals) > 1):
            bad = 1
    return bad


SELFTEST_NOTES = """
Binding demonstration (2026-10-04, all with `bin/verif check C04 --tier quick`, VERIF_SRC=<scratch worktree of /repo at
de0c5c0 with hooks/H4-builtins.diff applied plus the one-line mutation>; machine load average was 130-200 while these ran,
so the wall times (460-620 s) say nothing about an idle machine; CPU cost of one quick run is about 500 CPU-seconds).

Unchanged tree (no H4 hook in /repo yet): exit 0, "C04 quick: held", hooks_missing = [cfold, fint], 59 013 cases x 3 routes +
11 591 cases on the q2v route; at /repo de0c5c0 70 known-finding keys were hit and nothing else; the lead then committed
hooks/fix-C04-cfold.diff as d59b0d5 (those 32 keys are now status "fixed"), and at /repo a6aa17b two further runs
(VERIF_SEED=7 and the default seed) held with 26 known-finding keys hit.  Same with the hook worktree (hooks_missing = [],
32 920 cases confirmed folded by a cfold event, 80 054 events validated).

Mutations (each compiled; each reported VIOLATION and exit 1; the known findings stayed suppressed):
 m1 of_cfold.c  SIntPlus folds a - b instead of a + b        -> caught: SIntPlus on route q2i (6 argument classes, ~930 cases)
                                                                 and again as REJECTed cfold hook events (same classes)
 m2 fint.c      SIntLE evaluates a < b                         -> caught: SIntLE on q0i/q2i/q2v and fint hook events; the
                                                                 interpreter also breaks library code, so many other builtins
                                                                 on q0i are reported as "evaluator stopped"
 m3 foam_c.h    fiSIntBit mask 1 << i instead of 1L << i       -> caught: SIntBit on q0i, q0c, q2i, q2v and fint hook events
                                                                 (bit positions >= 31)
 m4 genc.c      ccBValInfoTable maps SIntShiftDn to CCO_USh    -> caught: SIntShiftDn on q0c only (1 269 cases)
 m5 of_peep.c   x * 2^k rewritten to a shift by k+1            -> caught: SIntTimes on q2v only (the route with a
                                                                 non-constant first operand; the three-route scheme of the
                                                                 design does not reach the algebraic simplifier)
Corrupted events (TraceBuiltins, -workers 1): a cfold SIntPlus event with the result changed by one, a fint BIntTimes event
with the result changed by one, a fint SIntLT event with the non-canonical boolean 2, and a second Observe of one input with a
different digest were each printed as REJECT / DISAGREE (SUMMARY rejected = 3, disagreed = 1); the unmodified event was accepted.

Candidate repairs (hooks/fix-C04-{cfold,fint-bool,timesmod,genc,runtime}.diff applied together with the hook diff in one
worktree): exit 0, "held"; the only known findings still hit are the two without a patch (SIntPlusMod overflow: 6 keys;
SIntTimesModInv: 2 keys); trace summary rejected = 64 (the SIntPlusMod events), disagreed = 0.

Thorough tier: exercised end to end with VERIF_C04_STRIDE=15 on the hook worktree (default is 5; 1 = full product): held,
261 559 cases x 3 routes + 225 444 q2v cases, 176 306 cases confirmed folded, 247 920 events validated, 852 557 TLC states,
3 612 s wall at load average 130-250 (about 5 000 CPU-seconds).  A first attempt lost its compiler when other checks' builds
evicted the shared build cache entry after 40 minutes: the check now works on a private copy of aldor and libfoam-fresh.a.
The default stride 5 has not been run to completion here because of the machine load.

After the lead committed the hook (4b565af) and the repairs (d59b0d5, 3910897, 7cb2bf1, fa8dd9d, 4df23f6, 18659d0, a7fe908,
a76b7bf): quick on /repo holds with exactly 8 known-finding lines (SIntPlusMod overflow on q0i/q2i/q0c/q2v/fint/cfold,
SIntTimesModInv on q0i/q2i), identical for VERIF_SEED 11, 424242, 5 and the default; 62 C04 findings are "fixed".  The
fraction words of [SD]FloDissemble are compared in full again.  Quick tier now: the TLC runs (W = 8 model checks, generator,
random evaluation) run concurrently, the q2v route runs beside the three routes, stride 401: 37 000 cases, 100-110 s wall at
load average 75, about 400-430 CPU-seconds.

False alarms met while building (fixed in the model/harness, never listed as findings): compiler warnings about stale .c
files shifted the output lines of the -Q2 run; an interpreter abort (SIntTimesModInv "unimplemented") was attributed to the
following case; CharMin/CharMax = 128/127 (CHAR_MIN/CHAR_MAX cast to unsigned char) and ArrToBInt of radix text, BIntShiftRem,
BIntLength(0) were first given definitions the sources do not support: they are agreement-only now.
"""
