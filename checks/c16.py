"""C16 -- Generated C is valid under every C-generation option."""
import concurrent.futures
import glob
import hashlib
import json
import os
import random
import re
import shutil
import subprocess
import sys
import time

import vlib
import progcheck
import progrun

sys.path.insert(0, os.path.join(vlib.VERIF, "gen"))
import progen  # noqa: E402
import render  # noqa: E402
import c16_names as cn  # noqa: E402
import c16_decl as cdecl  # noqa: E402

META = {
    "title": "Generated C is valid under every C-generation option",
    "level": "model_checking",
    "technique": "CNames.tla (identifier mangling of genc.c, exhaustive over a small alphabet; exact collision condition) + COpts.tla "
                 "(option machine, exports the configuration space) + AldorSem.tla (expected behaviour); every (program, configuration) "
                 "is compiled, every emitted C file is compiled and linked by gcc, run and compared; the names in the emitted C are "
                 "judged by TraceCNames.tla; CSplitFn/CSplit/CSplitPlan.tla (the split decision as a function of the unit's statement estimate S "
                 "and the limit N, the machine that cuts a unit into files, the limits to replay for a MEASURED S) and CDeclFn/CDecl/CDeclEval.tla "
                 "(declarator and calling convention per parameter kind and dialect; behaviour of the declarator family; judging of recorded heads)",
    "design_ref": "DESIGN.md 3.13 (CNames), 5 C16",
    "level_text": "TLC checks the transcription of the C generator's identifier construction exhaustively over a small alphabet (names up "
                  "to 4..6 characters, limits 0/3/4/7/8/12, a tiny hash) and derives the exact condition under which two entities get one "
                  "C name; TLC enumerates the C-option machine and exports the 80 configurations of the statement; for generated programs "
                  "(plain, 20..80-character names sharing prefixes of every length, operator-character names) under these configurations "
                  "gcc compiles and links every emitted file (-Werror=implicit-function-declaration) and the executable must print the "
                  "output TLC derived from AldorSem.tla. File-scope and link names of every compiled unit are aligned with the untruncated "
                  "output and judged for distinctness by TLC (TraceCNames.tla); spelling is compared with CNames!MangleH as drift only. "
                  "Name pairs that satisfy the derived collision condition under the real hash are found by TLC (CNamesSearch.tla) and "
                  "replayed, also as programs of two units; fixed multi-unit / foreign-export scenarios cover the name-keyed identifiers "
                  "(unit initialisers, static closures) and the part files of split units. "
                  "File splitting: TLC checks CSplit.tla (gc0ExternDecls + emitTheC transcribed: loop, gc0OverSMax sites, header placement, file "
                  "naming) over every unit shape up to 4..5 programs and every limit, i.e. every S = N, N+-1, k*N, N = 1 and brother parts that hold "
                  "only their initialisation function; for real units the harness measures S on the compiler (bisection on -Csmax observing <unit>.h), "
                  "CSplitPlan.tla derives the limits {S-2..S+2, S/2-1..S/2+1, S/3, S/3+1, the two largest divisors, 1, 2} with split / file count / "
                  "header, and every (unit, limit, dialect) is compiled, linked, run and compared with the AldorSem output (file counts: drift). "
                  "Declarators: TLC checks CDecl.tla (every signature of up to 2..3 parameters over value / raw array / return slot of every "
                  "scalar C type: the head is read back by a C compiler with the intended types in both dialects, caller and callee of one "
                  "dialect agree on the machine class of every argument; across dialects they do not: recorded finding); the declarator family "
                  "(gen/c16_decl.py: user-defined domains in PrimitiveArray / Array -> compiler-generated PackedArrayGet/Set with `T *' "
                  "parameters, SFlo/DFlo/Char/HInt/XByte/Bool/Arr/Ptr/closure parameters, multiple-value returns, Foreign C exports) is run "
                  "under -Cstandard, -Cold and -Cold -Csmax=k at -Q0..-Q3 against libraries of the same dialect, outputs defined by "
                  "CDeclEval.tla, and every function head emitted in both dialects is judged by TLC (CDeclFn!ReadParam).",
    "level_note": "Trusted: AldorSem.tla, the renderer, gcc, the shipped headers. Collisions inside a function body or a struct are left to "
                  "gcc (they are compile errors). Limits other than the default are also exercised against libraries regenerated with the "
                  "same limit (the shipped archives only fit the default limit: recorded finding). -Cno-idhash and limits below the default "
                  "are outside the statement and are modelled but not replayed.",
}

IDLENS = [0, 30, 31, 40, 64]
AXL_DIR = os.path.join(vlib.REPO, "aldor/lib/axllib/src")
RT_AO = os.path.join(vlib.REPO, "aldor/aldor/lib/libfoam/al/runtime.ao")
GCC_STRICT = ["-Werror=implicit-function-declaration"]


# ---------------------------------------------------------------------------------------------------------------
# configurations (COpts.tla)

def configurations(chk):
    r = vlib.tlc("COpts", "COpts", workers=4, timeout=300)
    chk.add_tlc("COpts", r)
    if r.violated:
        chk.violation("COpts.tla violates %s" % r.violated, r.trace_text, key={"model": "COpts", "inv": r.violated})
    cfgs = [json.loads(l[7:]) for l in r.printed if isinstance(l, str) and l.startswith("CONFIG ")]
    # the product of the statement: one explicit option per group; "lines" means that line numbers really reach the C, which
    # takes -Zdb as well (emit.c: emitDoLineNos && ccLineNos(); -Clines alone changes nothing)
    product = [c for c in cfgs if c["inscope"] and c["canonical"] and c["idlen"] in IDLENS and c["debug"] == c["lines"]
               and len([o for o in c["opts"] if o.startswith("-C")]) == 4
               and not any(o.endswith("=-1") or "idhash" in o for o in c["opts"])]
    if len(product) != 80:
        raise vlib.MachineryError("COpts.tla exported %d configurations of the statement, expected 80" % len(product))
    overrides = [c for c in cfgs if len(c["opts"]) == 2 and not c["canonical"]]
    default = [c for c in cfgs if not c["opts"]][0]
    return product, overrides, default, len(cfgs)


def cfg_label(c):
    return " ".join(c["opts"]) if c["opts"] else "(default)"


def choose_quick(product, rnd, n=16):
    """n configurations in which every value of every dimension occurs; the (idlen, smax) pairs are spread out, and
    only two of them use -Csmax=1 (a unit then becomes some hundred files: left to the thorough tier)."""
    pairs = [(i, s) for i in IDLENS for s in (0, 5, 50)]
    rnd.shuffle(pairs)
    ones = rnd.sample(IDLENS, 2)
    pairs = [(i, 1) for i in ones] + pairs[:n - 2]
    if 30 not in [i for i, _ in pairs[2:]]:
        pairs[-1] = (30, 50)
    chosen = []
    for k, (i, s) in enumerate(pairs):
        std = (k % 2 == 0)
        lines = (k % 4 < 2) ^ (rnd.random() < 0.5)
        chosen.append([x for x in product if x["idlen"] == i and x["smax"] == s and x["std"] == std and x["lines"] == lines][0])
    return chosen


# ---------------------------------------------------------------------------------------------------------------
# libraries regenerated with given C options by the fresh compiler (cached next to the build)

def build_libs(build, opts, strict=True):
    """libaxllib.a and the generated part of the run time (runtime.c) regenerated from the shipped .ao files with `opts`.
    Returns dict(axllib, rt, failures=[(unit, phase, text)], files=n)."""
    key = "c16lib-" + hashlib.sha1((" ".join(opts) + "|v3").encode()).hexdigest()[:12]
    d = os.path.join(build["dir"], key)
    info_path = os.path.join(d, "info.json")
    if os.path.exists(info_path):
        return json.load(open(info_path))
    tmp = d + ".tmp%d" % os.getpid()
    shutil.rmtree(tmp, ignore_errors=True)
    os.makedirs(tmp)
    units = [u[:-3] for u in subprocess.run(["ar", "t", os.path.join(AXL_DIR, "libaxllib.al")], stdout=subprocess.PIPE,
                                            check=True).stdout.decode().split() if u.endswith(".ao")]
    failures = []

    def gen(unit, ao, sub):
        ud = os.path.join(tmp, sub, unit)
        os.makedirs(ud)
        rc, out, err, to = vlib.aldor(build, list(opts) + ["-Fc", ao], ud, timeout=300)
        cs = sorted(glob.glob(os.path.join(ud, "*.c")))
        if rc != 0 or to or not cs:
            failures.append((unit, "aldor", (out + err).decode(errors="replace")[-600:]))
            return []
        objs = []
        bad = False
        for c in cs:
            o = os.path.join(tmp, sub, "%s__%s.o" % (unit, os.path.basename(c)[:-2]))
            cmd = ["gcc", "-w", "-O0", "-I" + vlib.SRC, "-I" + ud] + (GCC_STRICT if strict else []) + \
                  (["-DFOAM_RTS"] if sub == "rt" else []) + ["-c", c, "-o", o]
            rc, out, err, to = vlib.run(cmd, cwd=ud, timeout=600)
            if rc != 0 or to:
                failures.append((unit, "gcc " + os.path.basename(c), (out + err).decode(errors="replace")[-600:]))
                bad = True
            else:
                objs.append(o)
        if bad and sub == "axl":
            # the failure is reported by the caller; so that programs can still be linked against the other units generated
            # under these options, this unit is taken from the shipped archive (same names: only the limit changes names)
            o = os.path.join(tmp, sub, unit + ".o")
            rc, out, err, to = vlib.run(["ar", "x", os.path.join(AXL_DIR, "libaxllib.a"), unit + ".o"], cwd=os.path.join(tmp, sub), timeout=60)
            return [o] if rc == 0 and os.path.exists(o) else objs
        return objs
    with concurrent.futures.ThreadPoolExecutor(max_workers=vlib.NCPU) as ex:
        futs = [ex.submit(gen, u, os.path.join(AXL_DIR, "al", u + ".ao"), "axl") for u in units]
        rtf = ex.submit(gen, "runtime", RT_AO, "rt")
        objs = [o for f in futs for o in f.result()]
        rtobjs = rtf.result()
    axl = os.path.join(tmp, "libaxllib.a")
    subprocess.check_call(["ar", "rcs", axl] + objs)
    rt = os.path.join(tmp, "libfoam.a")
    shutil.copy(build["rt"], rt)
    subprocess.check_call(["ar", "d", rt, "runtime.o"])
    subprocess.check_call(["ar", "rs", rt] + rtobjs, stderr=subprocess.DEVNULL)
    nfiles = len(objs) + len(rtobjs)
    for sub in ("axl", "rt"):
        for o in glob.glob(os.path.join(tmp, sub, "*.o")):
            os.unlink(o)
    info = {"axllib": os.path.join(d, "libaxllib.a"), "rt": os.path.join(d, "libfoam.a"), "failures": failures, "files": nfiles,
            "opts": list(opts), "units": len(units) + 1}
    json.dump(info, open(os.path.join(tmp, "info.json"), "w"))
    shutil.rmtree(os.path.join(tmp, "axl"), ignore_errors=True)
    shutil.rmtree(os.path.join(tmp, "rt"), ignore_errors=True)
    try:
        os.rename(tmp, d)
    except OSError:
        shutil.rmtree(tmp, ignore_errors=True)
    return info


# ---------------------------------------------------------------------------------------------------------------
# helpers

def read_c(res):
    out = {}
    for fn in res.get("cfiles", []) + res.get("hfiles", []):
        try:
            out[fn] = open(os.path.join(res["dir"], fn), errors="replace").read()
        except OSError:
            pass
    return out


def link_strings(files, what):
    s = set()
    for t in files.values():
        s.update(re.findall(r'%s\("([^"]*)"' % what, t))
    return s


def str_hashes(build, names):
    """strHash of each name, by the C code (harness/strhash_drv.c linked with the fresh strops.o)."""
    h = vlib.harness_build("strhash", [os.path.join(vlib.VERIF, "harness", "strhash_drv.c")], build)
    names = sorted(set(names))
    if not names:
        return {}
    p = subprocess.run([h], input=("\n".join(names) + "\n").encode("latin-1", "replace"), stdout=subprocess.PIPE, timeout=120)
    lines = p.stdout.decode().split("\n")
    if p.returncode != 0 or len(lines) < len(names):
        raise vlib.MachineryError("strhash harness failed")
    return {n: int(l.split()[0]) for n, l in zip(names, lines)}


def tlc_search(chk, prefix, suffix, idlen, want=3, varlen=3):
    """Name pairs Prefix v Suffix that satisfy the collision condition of CNames.tla under the real hash (TLC)."""
    d = vlib.scratch("c16s")
    path = os.path.join(d, "search.ndjson")
    vlib.write_ndjson(path, [{"prefix": list(prefix), "suffix": list(suffix), "alphabet": list("abcdefghijklmnopqrstuvwxyz0123456789"),
                              "varlen": varlen, "idlen": idlen, "want": want}])
    r = vlib.tlc("CNamesSearch", "CNamesSearch", workers=2, timeout=600, env={"C16_SEARCH": path})
    chk.add_tlc("CNamesSearch[%s...%s]" % (prefix[:12], suffix), r)
    if r.violated:
        raise vlib.MachineryError("CNamesSearch: %s" % r.violated)
    for l in r.printed:
        if isinstance(l, str) and l.startswith("COLLIDE "):
            return json.loads(l[8:])["pairs"]
    raise vlib.MachineryError("CNamesSearch printed no result")


def global_frame(build, prog, names, fname_real, wd, tag):
    """The FOAM name the compiler gives the global of function `fname_real` is <prefix><name><suffix> (unit prefix, type hash):
    read it off an untruncated compile."""
    res = progrun.run_c_all(build, dict(prog, id=prog["id"] + "-probe" + tag), wd, extra_args=("-Cidlen=0",), names=names, timeout=120)
    files = read_c(res)
    for s in link_strings(files, "fiExportGlobal"):
        dec = cn.decode_ident(s)
        if dec and dec[0] == "G" and fname_real in dec[2]:
            i = dec[2].index(fname_real)
            return dec[2][:i], dec[2][i + len(fname_real):]
    return None



def compile_units(build, d, units, opts, axllib=None, rt=None, timeout=120):
    """units: [(file base name, source text, is_main)], compiled in this order in directory d (a library unit with -Fc -Fao,
    the main unit with -Fc -Fmain); then gcc compiles and links EVERY C file in d.  Result as progrun.run_c_all plus
    "parts": {unit: C files that appeared while it was compiled}."""
    os.makedirs(d, exist_ok=True)
    parts = {}
    overwritten = {}
    have = set()

    def digest():
        return {os.path.basename(f): hashlib.sha1(open(f, "rb").read()).hexdigest() for f in glob.glob(os.path.join(d, "*.[ch]"))}
    for base, text, main in units:
        open(os.path.join(d, base + ".as"), "w").write(text)
        before = digest()
        rc, out, err, to = vlib.aldor(build, list(opts) + (["-Fc", "-Fmain"] if main else ["-Fc", "-Fao"]) + [base + ".as"], d, timeout=timeout)
        after = digest()
        now = set(f for f in after if f.endswith(".c"))
        parts[base] = sorted(now - have)
        overwritten[base] = sorted(f for f in before if after.get(f) != before[f])     # files of EARLIER units this compile changed or removed
        have = now
        if rc != 0 or to:
            return {"rc": rc, "out": out.decode(errors="replace"), "err": err.decode(errors="replace"), "phase": "compile", "timeout": to,
                    "dir": d, "parts": parts, "overwritten": overwritten, "cfiles": sorted(have), "hfiles": []}
    cfiles = sorted(have)
    cmd = ["gcc", "-w", "-O0", "-I" + vlib.SRC] + GCC_STRICT + ["-o", "p"] + cfiles + \
          [axllib or os.path.join(AXL_DIR, "libaxllib.a"), rt or build["rt"], "-lm"]
    rc, out, err, to = vlib.run(cmd, cwd=d, timeout=600)
    res = {"dir": d, "parts": parts, "overwritten": overwritten, "cfiles": cfiles, "hfiles": sorted(os.path.basename(f) for f in glob.glob(os.path.join(d, "*.h")))}
    if rc != 0 or to:
        res.update({"rc": rc, "out": out.decode(errors="replace"), "err": err.decode(errors="replace"), "phase": "link", "timeout": to})
        return res
    rc, out, err, to = vlib.run(["./p"], cwd=d, timeout=timeout)
    res.update({"rc": rc, "out": out.decode(errors="replace"), "err": err.decode(errors="replace"), "phase": "run", "timeout": to})
    return res


def scenarios(chk, b, wd, colp, exp, frame, rnd, libs0):
    """Programs of several units (the collision program split by render.render_split: both functions in a library unit):
    A. the two functions carry a name pair that satisfies the collision condition (TLC, real hash) in the library unit;
    B. the two units have names that share their first 30 characters;
    C. the two units have names that share their first five characters and are split into part files (-Csmax=1).
    Each must behave as the specification says under the default options; each is also run with -Cidlen=0 against
    libraries regenerated with -Cidlen=0 (libs0), where nothing is truncated."""
    out = []

    def judge(tag, res, opts, evidence):
        verdict = progcheck.classify(res, exp)
        chk.case(("units", tag, " ".join(opts)), nontrivial=True)
        chk.traces += 1
        out.append({"scenario": tag, "opts": list(opts), "verdict": list(verdict) if verdict else None, "evidence": evidence})
        if verdict is None:
            return
        kind, sig = verdict
        key = {"kind": kind, "sig": sig, "scenario": tag, "opts": list(opts)}
        if evidence:
            key = {"kind": kind, "cause": evidence, "units": len(res.get("parts", {})) or 1}
        chk.violation("%s in the %s scenario under %s: %s" % (kind, tag, " ".join(opts) or "(default)", sig),
                      {"scenario": tag, "opts": list(opts), "got_out": res["out"][:1500], "got_err": res["err"][:2500], "rc": res["rc"],
                       "phase": res["phase"], "expected_out": exp["out"], "parts": res.get("parts"), "evidence": evidence,
                       "sources": {u: open(os.path.join(res["dir"], u + ".as")).read() for u in res.get("parts", {})}}, key=key)

    def dup_exports(res):
        ex = []
        for fn in res.get("cfiles", []):
            ex += re.findall(r'fiExportGlobal\("([^"]*)"', open(os.path.join(res["dir"], fn), errors="replace").read())
        return sorted(set(x for x in ex if ex.count(x) > 1))
    zero = ("-Cidlen=0",)
    kw0 = {"axllib": libs0["axllib"], "rt": libs0["rt"]} if libs0 else None
    # A
    if frame:
        unit = "plib"
        stem = "".join(rnd.choice("abcdefghijklmnopqrstuvwxyz") for _ in range(3)) + "CollidingFunctionNameStem"
        pairs = tlc_search(chk, unit + frame[0][1:] + stem, frame[1], 30, want=1)
        if pairs:
            names = {"fa": stem + pairs[0]["va"], "fb": stem + pairs[0]["vb"]}
            lib_text, client_text = render.render_split(colp, [0, 1], libref=unit + ".ao", libid="PLib", names=names)
            for opts, kw, t in (((), {}, "d"), (zero, kw0, "z")):
                if kw is None:
                    continue
                res = compile_units(b, os.path.join(wd, "scenA" + t), [(unit, lib_text, False), ("p", client_text, True)], opts, **kw)
                judge("colliding-globals-in-library-unit", res, opts, "duplicate-global-link-name" if dup_exports(res) else None)
    # B
    ua, ub = "c16unitwithaverylongsharednameA", "c16unitwithaverylongsharednameB"
    lib_text, client_text = render.render_split(colp, [0, 1], libref=ua + ".ao", libid="PLib")
    for opts, kw, t in (((), {}, "d"), (zero, kw0, "z")):
        if kw is None:
            continue
        res = compile_units(b, os.path.join(wd, "scenB" + t), [(ua, lib_text, False), (ub, client_text, True)], opts, **kw)
        ev = "unit-init-function-name-collision" if res["phase"] == "link" and re.search(r"multiple definition of `INIT__", res["err"]) else None
        judge("unit-names-sharing-30-characters", res, opts, ev)
    # C
    ua, ub = "c16spA", "c16spB"
    lib_text, client_text = render.render_split(colp, [0, 1], libref=ua + ".ao", libid="PLib")
    for opts, t in ((("-Csmax=1",), "s"), ((), "d")):
        res = compile_units(b, os.path.join(wd, "scenC" + t), [(ua, lib_text, False), (ub, client_text, True)], opts)
        # C files of the first unit that the compilation of the second unit overwrote
        redone = [f for f in res.get("overwritten", {}).get(ub, []) if f.endswith(".c")]
        judge("unit-names-sharing-5-characters-split", res, opts, "split-part-file-names-collide" if redone else None)
    # D: functions exported `to Foreign Builtin` (as the run-time support units do): each gets a static closure
    # tmpClos0_<name> (index always 0, no hash) that points to a static tmp<i>_<name> program structure
    def foreign(names):
        text = render.render(colp, names)
        decl = "export { %s: SI -> SI; %s: SI -> SI } to Foreign Builtin;" % ((names or {}).get("fa", "fa"), (names or {}).get("fb", "fb"))
        lines = text.split("\n")
        k = [i for i, l in enumerate(lines) if l.startswith("import from")][0]
        return "\n".join(lines[:k + 1] + [decl] + lines[k + 1:])
    longn = {"fa": "exportedFunctionWithLongNameA", "fb": "exportedFunctionWithLongNameB"}
    for opts, kw, t in (((), {}, "d"), (zero, kw0, "z")):
        if kw is None:
            continue
        res = compile_units(b, os.path.join(wd, "scenD" + t), [("p", foreign(longn), True)], opts, **kw)
        ev = "static-closure-name-collision" if res["phase"] == "link" and re.search(r"redefinition of .tmpClos0_", res["err"]) else None
        judge("foreign-builtin-exports-sharing-21-characters", res, opts, ev)
    for opts, t in ((("-Csmax=1",), "s"), ((), "e")):
        res = compile_units(b, os.path.join(wd, "scenD" + t), [("p", foreign(None), True)], opts)
        ev = "split-static-prog-referenced-from-other-part" if res["phase"] == "link" and re.search(r"tmp\d+_\w+. undeclared", res["err"]) else None
        judge("foreign-builtin-exports-split", res, opts, ev)
    return out


# ---------------------------------------------------------------------------------------------------------------
# file splitting at its boundaries (CSplitFn.tla / CSplit.tla / CSplitPlan.tla)

def measure_estimate(build, d, text, qopts):
    """The statement estimate S of the unit `text' as the compiler computes it under qopts: the smallest -Csmax=<N> under
    which the unit is NOT split (observed: no <unit>.h is written), found by doubling + bisection.  Returns (S, probes)
    or (None, why)."""
    os.makedirs(d, exist_ok=True)
    open(os.path.join(d, "p.as"), "w").write(text)
    probes = {}

    def split_at(n):
        if n in probes:
            return probes[n]
        for f in glob.glob(os.path.join(d, "*.[ch]")):
            os.unlink(f)
        rc, out, err, to = vlib.aldor(build, list(qopts) + ["-Csmax=%d" % n, "-Fc", "p.as"], d, timeout=120)
        if rc != 0 or to:
            raise RuntimeError("aldor -Csmax=%d: rc=%s %s" % (n, rc, (out + err).decode(errors="replace")[-300:]))
        probes[n] = (os.path.exists(os.path.join(d, "p.h")), len(glob.glob(os.path.join(d, "*.c"))))
        return probes[n]
    try:
        lo, hi = 1, 64                  # invariant: split at lo (or lo = 0), not split at hi
        if not split_at(1)[0]:
            return 1, probes            # S <= 1
        while split_at(hi)[0]:
            lo, hi = hi, hi * 2
            if hi > (1 << 20):
                return None, "still split at -Csmax=%d" % lo
        while hi - lo > 1:
            mid = (lo + hi) // 2
            if split_at(mid)[0]:
                lo = mid
            else:
                hi = mid
        return hi, probes
    except RuntimeError as ex:
        return None, str(ex)
    finally:
        for f in glob.glob(os.path.join(d, "*.[ch]")):
            os.unlink(f)


def split_plan(chk, units):
    """units: [(id, S, small)] -> {id: [row]} from CSplitPlan.tla (TLC)."""
    d = vlib.scratch("c16p")
    path = os.path.join(d, "split.ndjson")
    vlib.write_ndjson(path, [{"id": i, "S": s, "small": bool(sm)} for (i, s, sm) in units])
    r = vlib.tlc("CSplitPlan", "CSplitPlan", workers=1, timeout=300, env={"C16_SPLIT": path})
    chk.add_tlc("CSplitPlan", r)
    if r.violated:
        raise vlib.MachineryError("CSplitPlan: %s\n%s" % (r.violated, r.out[-1500:]))
    plan = {}
    for l in r.printed:
        if isinstance(l, str) and l.startswith("PLAN "):
            rec = json.loads(l[5:])
            plan[rec["id"]] = rec["rows"]
    if len(plan) != len(units):
        raise vlib.MachineryError("CSplitPlan exported %d plans for %d units" % (len(plan), len(units)))
    return plan


def relation(S, n):
    """How the limit n lies to the estimate S (part of violation keys and of the evidence)."""
    if n == S:
        return "N=S"
    if n in (S - 1, S - 2):
        return "N=S-%d" % (S - n)
    if n in (S + 1, S + 2):
        return "N=S+%d" % (n - S)
    if n <= 2:
        return "N=%d" % n
    if S % n == 0:
        return "S=%d*N" % (S // n)
    if S % n == 1:
        return "S=%d*N+1" % (S // n)
    return "S=%d*N+r" % (S // n)


def decl_eval(chk, events, name):
    """One TLC run of CDeclEval.tla over `events' (programs to evaluate and/or recorded heads to judge)."""
    d = vlib.scratch("c16d")
    path = os.path.join(d, "decl.ndjson")
    vlib.write_ndjson(path, events)
    r = vlib.tlc("CDeclEval", "CDeclEval", workers=1, timeout=900, env={"C16_DECL": path})
    chk.add_tlc(name, r)
    if r.violated:
        raise vlib.MachineryError("CDeclEval: %s\n%s" % (r.violated, r.out[-1500:]))
    ends = [json.loads(l[8:]) for l in r.printed if isinstance(l, str) and l.startswith("DECLEND ")]
    if not ends or ends[0]["events"] != len(events):
        raise vlib.MachineryError("CDeclEval did not reach the end of its input\n" + r.out[-1500:])
    behav = {}
    bad = []
    for l in r.printed:
        if isinstance(l, str) and l.startswith("DECLBEHAV "):
            bh = json.loads(l[10:])
            behav[bh["id"]] = {"out": cdecl.expected_text(bh["out"]), "status": "done"}
        elif isinstance(l, str) and l.startswith("BADHEAD "):
            bad.append(json.loads(l[8:]))
    return behav, bad, ends[0]


class Deferred(object):
    """Stands in for the Check object inside a worker thread: records the calls (case / violation / sample / add_tlc) and the
    trace count, replayed into the real object by the main thread (the Check object is not written to from two threads)."""

    def __init__(self):
        self.calls = []
        self.traces = 0

    def __getattr__(self, name):
        def rec(*a, **k):
            self.calls.append((name, a, k))
        return rec

    def replay_into(self, chk):
        for name, a, k in self.calls:
            getattr(chk, name)(*a, **k)
        chk.traces += self.traces


def boundaries_and_declarators(chk, b, wd, fam, variants, tiny, quick, rnd, oldlib, decl_progs, decl_exp):
    """8c. every unit is replayed at the limits CSplitPlan.tla derives from its MEASURED statement estimate;
       8d. the declarator family under -Cold / -Cold -Csmax=k / -Cstandard at -Q0..-Q3, heads judged by CDeclEval.tla."""
    info = {}
    # ---- units: (id, text, qopts, expected, small?) ----
    units = []
    nsmall = 1 if quick else 5
    qlevels = [None] if quick else [None, "0", "3"]
    for (p, style, names, real) in [(tp, "plain", None, None) for tp in tiny] + [v for v in variants if v[1] != "crafted"][:nsmall]:
        for q in qlevels + (["3"] if "3" not in qlevels and "bi" in p.get("feat", []) and style == "plain" and names is None else []):
            units.append({"id": "%s@Q%s" % (p["id"], q if q is not None else "default"), "text": render.render(p, names),
                          "qopts": ["-Q" + q] if q is not None else [], "exp": fam.exp[p["id"]], "family": "gen"})
    for k, dp in enumerate(decl_progs[:1 if quick else 4]):
        for q in (["1"] if quick else ["0", "2"]):
            units.append({"id": "%s@Q%s" % (dp["id"], q), "text": cdecl.render(dp), "qopts": ["-Q" + q], "exp": decl_exp[dp["id"]],
                          "family": "decl"})

    def meas(u):
        return measure_estimate(b, os.path.join(wd, "meas-" + re.sub(r"\W", "_", u["id"])), u["text"], u["qopts"])
    with concurrent.futures.ThreadPoolExecutor(max_workers=vlib.NCPU) as ex:
        ms = list(ex.map(meas, units))
    measured = []
    for u, (S, probes) in zip(units, ms):
        if S is None:
            raise vlib.MachineryError("statement estimate of %s could not be measured: %s" % (u["id"], probes))
        u["S"] = S
        u["small"] = S <= (130 if quick else 400)
        u["probes"] = probes
        measured.append(u)
    plan = split_plan(chk, [(u["id"], u["S"], u["small"]) for u in measured])
    jobs = []
    for ui, u in enumerate(measured):
        rows = plan[u["id"]]
        for ri, row in enumerate(rows):
            if row["cfiles"] > (210 if quick else 450):
                continue
            near = abs(row["N"] - u["S"]) <= 1
            if quick and u["family"] == "decl" and not (near or row["cfiles"] <= 3):
                continue
            dialects = ("std", "old") if (not quick or near) else (("std",) if (ui + ri) % 2 == 0 else ("old",))
            for dl in dialects:
                jobs.append((ui, row, dl))

    def do(job):
        ui, row, dl = job
        u = measured[ui]
        opts = u["qopts"] + ["-Cstandard" if dl == "std" else "-Cold", "-Csmax=%d" % row["N"]]
        kw = {}
        if dl == "old" and u["family"] == "decl":
            kw = {"axllib": oldlib["axllib"], "rt": oldlib["rt"]}      # narrow parameters: libraries of the same dialect
        d = os.path.join(wd, "bnd-%d-%d-%s" % (ui, row["N"], dl))
        res = compile_units(b, d, [("p", u["text"], True)], opts, **kw)
        for f in glob.glob(os.path.join(d, "*.o")) + [os.path.join(d, "p")]:
            try:
                os.unlink(f)
            except OSError:
                pass
        return res
    with concurrent.futures.ThreadPoolExecutor(max_workers=vlib.NCPU) as ex:
        results = list(ex.map(do, jobs))
    chk.traces += len(jobs)
    count_drift = []
    rels = {}
    for (ui, row, dl), res in zip(jobs, results):
        u = measured[ui]
        rel = relation(u["S"], row["N"])
        rels[rel] = rels.get(rel, 0) + 1
        chk.case(("split-boundary", u["id"], row["N"], dl), nontrivial=bool(row["boundary"]))
        verdict = progcheck.classify(res, u["exp"])
        ncf = len([f for f in res.get("cfiles", []) if f != "p-aldormain.c"])
        if res["phase"] != "compile" and (ncf != row["cfiles"] or bool(res.get("hfiles")) != row["header"]):
            count_drift.append({"unit": u["id"], "S": u["S"], "N": row["N"], "c_files": ncf, "model": row["cfiles"], "header": bool(res.get("hfiles"))})
        if verdict is None:
            continue
        kind, sig = verdict
        chk.violation("%s at the split boundary: unit %s (estimate S=%d) under -Csmax=%d (%s) %s: %s"
                      % (kind, u["id"], u["S"], row["N"], rel, "-Cstandard" if dl == "std" else "-Cold", sig),
                      {"unit": u["id"], "S": u["S"], "N": row["N"], "relation": rel, "model_row": row, "dialect": dl,
                       "cfg": " ".join(u["qopts"] + ["-Cstandard" if dl == "std" else "-Cold", "-Csmax=%d" % row["N"]]) +
                              (" [samedialect]" if dl == "old" and u["family"] == "decl" else " [shipped]"),
                       "got_out": res["out"][:2000], "got_err": res["err"][:2500], "rc": res["rc"], "phase": res["phase"],
                       "cfiles": res.get("cfiles"), "hfiles": res.get("hfiles"), "expected_out": u["exp"]["out"][:2000], "source": u["text"]},
                      key={"kind": kind, "sig": sig, "where": "split-boundary", "relation": rel, "dialect": dl, "family": u["family"]})
    info["split_units"] = [{"unit": u["id"], "S": u["S"], "limits": [r["N"] for r in plan[u["id"]]]} for u in measured]
    info["split_runs_by_relation"] = rels
    info["split_file_count_drift"] = count_drift[:10]
    info["split_file_count_drift_count"] = len(count_drift)
    if measured:
        u = measured[0]
        chk.sample({"split_unit": u["id"], "measured_estimate": u["S"], "plan": plan[u["id"]][:6]})

    # ---- 8d. the declarator family ----
    Smap = {}
    for u in measured:
        if u["family"] == "decl":
            Smap[u["id"]] = u["S"]
    djobs = []
    nprog = 2 if quick else len(decl_progs)
    for pi, dp in enumerate(decl_progs[:nprog]):
        for q in ("0", "1", "2", "3"):
            if quick and (int(q) + pi) % 2 == 1:
                continue                                           # quick: program 0 at -Q0/-Q2, program 1 at -Q1/-Q3
            k1 = 60 + 37 * pi + 11 * int(q)                        # a few hundred statements per unit: 10..20 parts
            cfgs = [("std", ["-Cstandard"], "shipped"), ("old", ["-Cold"], "samedialect"), ("old-split", ["-Cold", "-Csmax=%d" % k1], "samedialect")]
            if not quick:
                cfgs += [("std-split", ["-Cstandard", "-Csmax=%d" % (k1 + 5)], "shipped"), ("old-split2", ["-Cold", "-Csmax=%d" % (7 * k1)], "samedialect")]
            if pi == 0 and q == "0" or (not quick and q in ("0", "1")):
                cfgs.append(("old", ["-Cold"], "shipped"))
            for (tag, opts, route) in cfgs:
                djobs.append((pi, q, tag, opts, route))

    def ddo(job):
        pi, q, tag, opts, route = job
        dp = decl_progs[pi]
        kw = {"axllib": oldlib["axllib"], "rt": oldlib["rt"]} if route == "samedialect" else {}
        d = os.path.join(wd, "decl-%d-q%s-%s-%s" % (pi, q, tag, route))
        res = compile_units(b, d, [("p", cdecl.render(dp), True)], ["-Q" + q] + opts, **kw)
        res["ctext"] = ""
        if tag in ("std", "old") and route != "shipped" or tag == "std":
            try:
                res["ctext"] = open(os.path.join(d, "p.c"), errors="replace").read()
            except OSError:
                pass
        return res
    with concurrent.futures.ThreadPoolExecutor(max_workers=vlib.NCPU) as ex:
        dres = list(ex.map(ddo, djobs))
    chk.traces += len(djobs)
    conform = {}
    for job, res in zip(djobs, dres):
        conform[job[:3] + (job[4],)] = progcheck.classify(res, decl_exp[decl_progs[job[0]]["id"]]) is None
    per = {}
    for (pi, q, tag, opts, route), res in zip(djobs, dres):
        dp = decl_progs[pi]
        exp = decl_exp[dp["id"]]
        label = "-Q%s %s [%s]" % (q, " ".join(opts), route)
        chk.case(("declarators", dp["id"], label), nontrivial=True)
        st = per.setdefault("%s/%s" % (tag, route), {"runs": 0, "bad": 0})
        st["runs"] += 1
        verdict = progcheck.classify(res, exp)
        if verdict is None:
            continue
        st["bad"] += 1
        kind, sig = verdict
        key = {"kind": kind, "sig": sig, "where": "declarators", "opts": opts, "route": route, "q": q}
        if route == "shipped" and tag == "old" and kind == "wrong-output" and conform.get((pi, q, "old", "samedialect")) \
                and conform.get((pi, q, "std", "shipped")):
            # the same C, linked with libraries generated in the same dialect, behaves; so does the standard-C output against the
            # shipped (standard-C) libraries: what differs is the dialect of the two sides of a call with an SFlo argument
            key = {"kind": kind, "cause": "old-c-unit-against-standard-c-library-sflo-argument", "route": "shipped"}
        chk.violation("%s in the declarator family: program %s under %s: %s" % (kind, dp["id"], label, sig),
                      {"program_id": dp["id"], "cfg": label, "got_out": res["out"][:2500], "got_err": res["err"][:2500], "rc": res["rc"],
                       "phase": res["phase"], "expected_out": exp["out"][:2500], "cfiles": res.get("cfiles"), "source": cdecl.render(dp), "abstract": dp},
                      key=key)
    # heads: the standard and the old output of the same program at the same level
    events = []
    unmatched = 0
    by = {(pi, q, tag, route): res for (pi, q, tag, opts, route), res in zip(djobs, dres)}
    for pi in range(nprog):
        for q in ("0", "1", "2", "3"):
            a, o = by.get((pi, q, "std", "shipped")), by.get((pi, q, "old", "samedialect"))
            if a and o and a.get("ctext") and o.get("ctext"):
                ev, odd = cdecl.head_events(decl_progs[pi]["id"], "@Q" + q, a["ctext"], o["ctext"])
                events += ev
                unmatched += len(odd)
    if os.environ.get("VERIF_C16_CORRUPT") and events:
        # self-test: one recorded old-C declaration loses its star
        for e in events:
            hit = [dcl for dcl in e["olddecls"] if "*" in dcl and dcl[-1] != "*"]
            if hit:
                hit[0].remove("*")
                break
    nbadheads = 0
    hend = None
    if events:
        _, bad, hend = decl_eval(chk, events, "CDeclEval[heads]")
        nbadheads = len(bad)
        for bh in bad:
            base = re.sub(r"^CF\d+_", "", bh["fn"])
            chk.violation("function head of %s (program %s) is not read back as intended: %s" % (bh["fn"], bh["prog"], ", ".join(bh["problems"])),
                          {"head": bh, "recorded": [e for e in events if e["fn"] == bh["fn"] and e["prog"] == bh["prog"]][:1]},
                          key={"kind": "declarator-mismatch", "fn": base, "problems": sorted(re.sub(r"P\d+_\w+|R\d+", "_", x) for x in bh["problems"])})
    intended = sum(1 for e in events if e["intended"])
    if events and intended < 4 * nprog:
        raise vlib.MachineryError("only %d recorded heads of the declarator family carry an intended signature" % intended)
    info["declarator_runs"] = per
    info["declarator_heads_judged"] = {"heads": len(events), "with_intended_kinds": intended, "bad": nbadheads, "only_in_one_dialect": unmatched, "tlc": hend}
    if events:
        e0 = [e for e in events if e["intended"] and any(x[0] == "arr" for x in e["intended"])][:1] or events[:1]
        chk.sample({"recorded_head": e0[0]})
    if decl_progs:
        chk.sample({"declarator_program": decl_progs[0]["id"], "items": decl_progs[0]["items"][:4], "expected_out": decl_exp[decl_progs[0]["id"]]["out"][:300]})

    # ---- narrow parameter types in a function exported to Foreign C (recorded finding) ----
    for opts in (["-Cstandard"], ["-Cold"]):
        d = os.path.join(wd, "foreign-narrow" + opts[0])
        res = compile_units(b, d, [("p", cdecl.FOREIGN_NARROW, True)], opts)
        chk.case(("foreign-c-export-narrow", opts[0]), nontrivial=True)
        chk.traces += 1
        verdict = progcheck.classify(res, {"out": "done\n", "status": "done"})
        if verdict is not None:
            ev = "unprototyped-declaration-conflicts-with-definition" if res["phase"] == "link" and re.search(r"conflicting types for .c16narrow", res["err"]) else None
            key = {"kind": verdict[0], "sig": verdict[1], "where": "foreign-c-export", "opts": opts}
            if ev:
                key = {"kind": verdict[0], "cause": "foreign-c-export-" + ev, "dialect": opts[0]}
            chk.violation("%s: function with an SFlo parameter exported to Foreign C under %s: %s" % (verdict[0], opts[0], verdict[1]),
                          {"opts": opts, "got_err": res["err"][:2000], "got_out": res["out"][:500], "phase": res["phase"], "source": cdecl.FOREIGN_NARROW,
                           "cfg": opts[0], "expected_out": "done\n"}, key=key)
    return info

# ---------------------------------------------------------------------------------------------------------------

def run(chk, tier):
    t_start = time.time()
    marks = {}
    b = vlib.vbuild()
    wd = vlib.scratch("c16")
    rnd = random.Random(chk.seed)
    quick = tier == "quick"

    # ---- 1. the models (run side by side; the libraries for the other limits are generated meanwhile) -------
    pool = concurrent.futures.ThreadPoolExecutor(max_workers=14)
    f_names = pool.submit(vlib.tlc, "CNames", "CNames" if quick else "CNamesDeep", workers=8 if quick else vlib.NCPU, timeout=1200)
    f_dist = pool.submit(vlib.tlc, "CNames", "CNamesDistinct", workers=4, timeout=600)
    f_distnk = pool.submit(vlib.tlc, "CNames", "CNamesDistinctNK", workers=4, timeout=600)
    f_short = None if quick else pool.submit(vlib.tlc, "CNames", "CNamesShort", workers=4, timeout=600)
    f_libs = {i: pool.submit(build_libs, b, ("-Cidlen=%d" % i,)) for i in IDLENS if i != 30}
    # the split machine, the declarator / calling-convention model, the libraries in the old dialect, the declarator family
    f_split = pool.submit(vlib.tlc, "CSplit", "CSplit" if quick else "CSplitDeep", workers=4 if quick else vlib.NCPU, timeout=1500)
    f_decl = pool.submit(vlib.tlc, "CDecl", "CDecl" if quick else "CDeclDeep", workers=4 if quick else vlib.NCPU, timeout=1500)
    f_declmixed = pool.submit(vlib.tlc, "CDecl", "CDeclMixed", workers=2, timeout=600)
    f_oldlib = pool.submit(build_libs, b, ("-Cold",))
    decl_progs = cdecl.generate(chk.seed % 100003, 2 if quick else 10)
    product, overrides, default_cfg, nmodel_cfgs = configurations(chk)
    chosen = choose_quick(product, rnd, 16) if quick else list(product)
    if f_short is not None:
        # below the statement's range (limits under the default): with a limit of 3 or 4 even the kind strings are cut
        # (tmp / tmpClos); TLC shows it, recorded as information only
        rs = f_short.result()
        chk.add_tlc("CNamesShort", rs)
        chk.extra["model_limits_below_7"] = "indexed entities collide (%s violated), outside C16" % rs.violated if rs.violated else "no collision found"
    r = f_names.result()
    chk.add_tlc("CNames", r)
    if r.violated:
        chk.violation("CNames.tla violates %s" % r.violated, r.trace_text, key={"model": "CNames", "inv": r.violated})
    model_rows = [json.loads(l[7:]) for l in r.printed if isinstance(l, str) and l.startswith("CNAMES ")]
    if len(model_rows) < 10:
        raise vlib.MachineryError("CNames.tla exported %d rows" % len(model_rows))
    rsp = f_split.result()
    chk.add_tlc("CSplit", rsp)
    if rsp.violated:
        chk.violation("CSplit.tla: the splitting code as transcribed violates %s" % rsp.violated, rsp.trace_text, key={"model": "CSplit", "inv": rsp.violated})
    split_rows = [json.loads(l[9:]) for l in rsp.printed if isinstance(l, str) and l.startswith("SPLITROW ")]
    if len(split_rows) < 50 or not any(x["S"] == x["N"] for x in split_rows) or not any(x["split"] and x["S"] == 2 * x["N"] for x in split_rows):
        raise vlib.MachineryError("CSplit.tla exported %d rows / the boundary cases are missing" % len(split_rows))
    rdc = f_decl.result()
    chk.add_tlc("CDecl", rdc)
    if rdc.violated:
        chk.violation("CDecl.tla: the parameter printer as transcribed violates %s" % rdc.violated, rdc.trace_text, key={"model": "CDecl", "inv": rdc.violated})
    rdm = f_declmixed.result()
    chk.add_tlc("CDeclMixed", rdm)
    if rdm.violated:
        # callers and callees printed in different dialects (the shipped libraries are standard C): TLC shows the SFlo argument
        chk.violation("CDecl.tla: a caller in one dialect and a callee in the other violate %s" % rdm.violated, rdm.trace_text,
                      key={"model": "CDecl", "inv": rdm.violated})
    decl_exp, _, _ = decl_eval(chk, decl_progs, "CDeclEval[programs]")
    if set(decl_exp) != set(p["id"] for p in decl_progs):
        raise vlib.MachineryError("CDeclEval exported %d behaviours for %d programs" % (len(decl_exp), len(decl_progs)))
    # the statement itself, in the model: TLC shows the counterexample (hash of the full name is the only separator)
    for nm, fut, what in (("CNamesDistinct", f_dist, "two globals, one C name"),
                          ("CNamesDistinctNK", f_distnk, "two static closures / two unit initialisers, one C name")):
        r2 = fut.result()
        chk.add_tlc(nm, r2)
        if r2.violated:
            chk.violation("CNames.tla: the code as transcribed violates %s (%s)" % (r2.violated, what), r2.trace_text,
                          key={"model": "CNames", "inv": r2.violated})

    # ---- 2. programs and their behaviours (AldorSem) ---------------------------------------------------------
    nprog = 12 if quick else 44
    progs = progen.generate((chk.seed + 16) % 1000003, nprog)
    colp = cn.collision_program()
    # small units for the split boundaries (a unit of S statements under -Csmax=1 is S files)
    tiny = progen.generate((chk.seed + 16) % 1000003 + 500, 2 if quick else 5, features=["fun"]) + \
        progen.generate((chk.seed + 16) % 1000003 + 501, 1 if quick else 4, features=["fun", "while", "rec"]) + \
        progen.generate((chk.seed + 16) % 1000003 + 502, 1 if quick else 3, features=["fun", "bi"])
    # (the last group has Integer literals: folded at -Q3 they become big-integer constants of the unit, which a split
    #  unit defines in its first file and must declare in the common header)
    tiny_ids = set(p["id"] for p in tiny)
    fam = progcheck.Family(chk, progs + tiny + [colp], "gen", workers=vlib.NCPU, timeout=1500)
    replayable = [p for p in fam.replayable if p["id"] not in tiny_ids]
    tiny = [p for p in fam.replayable if p["id"] in tiny_ids] + [colp]
    if colp["id"] not in [p["id"] for p in replayable]:
        raise vlib.MachineryError("the collision program has no behaviour")
    styles = {}
    variants = []            # (prog, style, names, real)
    for k, p in enumerate(replayable):
        if p["id"] == colp["id"]:
            continue
        style = ("plain", "long", "ops")[k % 3]
        if style == "plain":
            names, real = None, {x: x for _, x in cn.idents_of(p)}
        else:
            names, real = cn.stress_names(p, chk.seed * 1000 + k, ops=(style == "ops"), nonprint=(style == "ops" and k % 2 == 0))
        styles[p["id"]] = style
        variants.append((p, style, names, real))

    # ---- 3. name pairs that satisfy the collision condition under the real hash (TLC), planted into programs ---
    crafted = []             # (prog, names, real, pair)
    frame = global_frame(b, colp, {"fa": "probeFunctionNameAAAA", "fb": "probeFunctionNameBBBB"}, "probeFunctionNameAAAA", wd, "0")
    if frame is None:
        chk.extra["collision_probe"] = "no exported global found for a file-level function (drift): crafted pairs skipped"
    else:
        stem = "".join(rnd.choice("abcdefghijklmnopqrstuvwxyz") for _ in range(3)) + "CollidingFunctionNameStem"
        pairs = tlc_search(chk, frame[0] + stem, frame[1], 30, want=2)
        chk.extra["tlc_collision_pairs"] = pairs[:2]
        for pr in pairs[:1 if quick else 2]:
            names = {"fa": stem + pr["va"], "fb": stem + pr["vb"]}
            crafted.append((dict(colp, id="%s_%s_%s" % (colp["id"], pr["va"], pr["vb"])), names, dict(names), pr, colp["id"]))
        # the same inside a generated program that has two functions of one signature
        for (p, style, names, real) in variants:
            sp = cn.same_signature_pairs(p)
            if not sp or style != "plain":
                continue
            fa, fb = sp[0]
            fr = global_frame(b, p, {fa: "probeFunctionNameAAAA", fb: "probeFunctionNameBBBB"}, "probeFunctionNameAAAA", wd, "1")
            if fr:
                pr2 = tlc_search(chk, fr[0] + stem, fr[1], 30, want=1)
                if pr2:
                    nm = {fa: stem + pr2[0]["va"], fb: stem + pr2[0]["vb"]}
                    crafted.append((dict(p, id=p["id"] + "_collide"), nm, dict({x: x for _, x in cn.idents_of(p)}, **nm), pr2[0], p["id"]))
            break
    for (p, names, real, pr, base_id) in crafted:
        fam.exp[p["id"]] = fam.exp[base_id]
        variants.append((p, "crafted", names, real))
        styles[p["id"]] = "crafted"
    marks["models+programs"] = time.time() - t_start

    # ---- 3b. baseline: the statement is relative to the default options.  A program whose executable does not show the
    # specified behaviour under the default options is the business of C01/C03 (recorded findings there); it is excluded here.
    def base(v):
        p, style, names, real = v
        return progrun.run_c_all(b, p, wd, extra_args=(), names=names, tag="-baseline", cflags=GCC_STRICT, timeout=120)
    with concurrent.futures.ThreadPoolExecutor(max_workers=vlib.NCPU) as ex:
        base_res = list(ex.map(base, variants))
    excluded = []
    kept = []
    default_imports = {}
    for v, res in zip(variants, base_res):
        verdict = progcheck.classify(res, fam.exp[v[0]["id"]])
        chk.case((v[0]["id"], v[1], "(default) [shipped]"), nontrivial=len(fam.exp[v[0]["id"]]["out"]) > 0)
        default_imports[v[0]["id"]] = link_strings(read_c(res), "fiImportGlobal")
        if verdict is None:
            kept.append(v)
        elif verdict[0] == "link-fail":
            # the compiler accepted the program and gcc rejects the C it generated under the default options, which are one
            # of the configurations of the statement
            chk.violation("%s under the default options: program %s (%s names) %s" % (verdict[0], v[0]["id"], v[1], verdict[1]),
                          {"program_id": v[0]["id"], "style": v[1], "got_err": res["err"][:2500], "got_out": res["out"][:1500],
                           "source": render.render(v[0], v[2])},
                          key={"kind": verdict[0], "sig": verdict[1], "route": "shipped", "opts": [], "style": v[1]})
        else:
            excluded.append({"program": v[0]["id"], "style": v[1], "default_options_run": list(verdict)})
    chk.traces += len(variants)
    if len(kept) * 2 < len(variants):
        # nearly nothing works under the default options: the C route as a whole is broken (names of the run-time interface,
        # the generated declarations ...): that is a violation of C16's first clause, not a weakness of single programs
        kinds = sorted(set(e["default_options_run"][0] for e in excluded))
        chk.violation("%d of %d programs do not show the specified behaviour under the DEFAULT C options (%s)" % (len(excluded), len(variants), kinds),
                      {"excluded": excluded[:10], "first_err": base_res[0]["err"][:2500], "first_out": base_res[0]["out"][:1500]},
                      key={"kind": "default-options-broken", "kinds": kinds})
    variants = kept
    chk.extra["excluded_nonconforming_under_default_options"] = excluded
    marks["baseline"] = time.time() - t_start

    # ---- 4. libraries with the same limit (the shipped archives only fit the default) -------------------------
    libs = {}
    lib_extra = []
    if not quick:
        # (splitting the 45 library units at every statement gives some 30000 files: -Csmax=1 and 5 are left to the programs)
        lib_extra = [("-Zdb", "-Cstandard", "-Csmax=50", "-Clines"), ("-Cold", "-Csmax=200", "-Cno-lines"), ("-Zdb", "-Cold", "-Csmax=0", "-Clines"),
                     ("-Cstandard", "-Csmax=20", "-Cno-lines")]
    with concurrent.futures.ThreadPoolExecutor(max_workers=3) as ex:
        futs2 = {o: ex.submit(build_libs, b, o) for o in lib_extra}
        for i, f in f_libs.items():
            libs[i] = f.result()
        extra_libs = {o: f.result() for o, f in futs2.items()}
    pool.shutdown()
    lib_files = 0
    for o, info in list(libs.items()) + list(extra_libs.items()):
        lib_files += info["files"]
        chk.case(("library", str(o)), nontrivial=True)
        for (unit, phase, text) in info["failures"]:
            key = {"kind": "link-fail", "unit": unit, "opts": info["opts"], "where": "library"}
            if any(o.startswith("-Csmax=") and o != "-Csmax=0" for o in info["opts"]) and re.search(r"tmp\d+_\w+. undeclared", text):
                key = {"kind": "link-fail", "where": "library", "cause": "split-static-prog-referenced-from-other-part"}
            chk.violation("library unit %s does not compile under %s: %s" % (unit, info["opts"], phase), {"unit": unit, "opts": info["opts"], "text": text},
                          key=key)
    marks["libraries"] = time.time() - t_start
    chk.extra["libraries_regenerated"] = {"options": [list(i["opts"]) for i in list(libs.values()) + list(extra_libs.values())], "c_files_compiled": lib_files}

    # ---- 5. replay: every (program variant, configuration) --------------------------------------------------
    jobs = []                # (variant index, cfg, route)
    # small programs first: the expensive configurations (a unit split at every statement becomes several hundred files)
    # are replayed on the first few only
    variants.sort(key=lambda v: (v[1] == "crafted", len(render.render(v[0], v[2]))))
    n_s1, n_s5, n_ship = (2, 5, 3) if quick else (4, 15, 8)
    for vi, (p, style, names, real) in enumerate(variants):
        cfgs = chosen
        if style == "crafted":
            cfgs = [c for c in chosen if c["smax"] in (0, 50)]
            if quick:
                c30 = [c for c in chosen if c["idlen"] == 30 and c not in cfgs[:6]][:2]
                cfgs = cfgs[:6] + c30
        for c in cfgs:
            if (c["smax"] == 1 and vi >= n_s1) or (c["smax"] == 5 and vi >= n_s5):
                continue
            # against the shipped archives a limit other than the default fails at start-up (recorded finding): that is kept
            # visible with a few programs; the rest is spent on libraries regenerated with the same limit
            if c["idlen"] == 30 or vi < n_ship or style == "crafted":
                jobs.append((vi, c, "shipped"))
            if c["idlen"] != 30:
                jobs.append((vi, c, "samelimit"))
    if not quick:
        # programs against libraries generated under other option combinations (library code under the C options)
        for vi, (p, style, names, real) in enumerate(variants[:12]):
            for o in lib_extra:
                jobs.append((vi, {"opts": list(o), "idlen": 30, "smax": 0, "std": None, "lines": None, "lib": o}, "optlib"))

    def do(job):
        vi, c, route = job
        p, style, names, real = variants[vi]
        kw = {}
        if route == "samelimit":
            kw = {"axllib": libs[c["idlen"]]["axllib"], "rt": libs[c["idlen"]]["rt"]}
        elif route == "optlib":
            kw = {"axllib": extra_libs[c["lib"]]["axllib"], "rt": extra_libs[c["lib"]]["rt"]}
        return progrun.run_c_all(b, p, wd, extra_args=tuple(c["opts"]), names=names, tag="-" + route, cflags=GCC_STRICT, timeout=120, **kw)
    with concurrent.futures.ThreadPoolExecutor(max_workers=vlib.NCPU) as ex:
        results = list(ex.map(do, jobs))
    chk.traces += len(jobs)
    marks["replay"] = time.time() - t_start
    # ---- 8c/8d (started here, judged below): split boundaries from the measured estimates; the declarator family.  The
    # phases 6..8b are mostly sequential (TLC with few workers, one scenario after the other), so this runs beside them.
    oldlib = f_oldlib.result()
    deferred = Deferred()
    bd_pool = concurrent.futures.ThreadPoolExecutor(max_workers=1)
    f_bd = bd_pool.submit(boundaries_and_declarators, deferred, b, wd, fam, list(variants), tiny, quick, rnd, oldlib, decl_progs, decl_exp)

    # reference outputs (nothing truncated) for the alignment: per (variant, std, smax, lines)
    refs = {}
    need = set()
    for (vi, c, route), res in zip(jobs, results):
        if route in ("shipped", "samelimit"):
            if c["idlen"] == 0:
                refs[(vi, c["std"], c["smax"], c["lines"])] = read_c(res)
            else:
                need.add((vi, c["std"], c["smax"], c["lines"]))
    need -= set(refs)

    def mkref(k):
        vi, std, smax, lines = k
        p, style, names, real = variants[vi]
        d = os.path.join(wd, "ref-%d-%s-%s-%s" % (vi, std, smax, lines))
        os.makedirs(d, exist_ok=True)
        open(os.path.join(d, "p.as"), "w").write(render.render(p, names))
        opts = (["-Zdb"] if lines else []) + ["-Cstandard" if std else "-Cold", "-Cidlen=0", "-Csmax=%d" % smax, "-Clines" if lines else "-Cno-lines"]
        vlib.aldor(b, opts + ["-Fc", "-Fmain", "p.as"], d, timeout=120)
        res = {"dir": d, "cfiles": sorted(os.path.basename(f) for f in glob.glob(os.path.join(d, "*.c"))),
               "hfiles": sorted(os.path.basename(f) for f in glob.glob(os.path.join(d, "*.h")))}
        return k, read_c(res)
    with concurrent.futures.ThreadPoolExecutor(max_workers=vlib.NCPU) as ex:
        for k, files in ex.map(mkref, sorted(need, key=repr)):
            refs[k] = files

    # ---- 6. judge every run against the specification ---------------------------------------------------------
    per = {}
    events = []
    seen_bind = set()
    spell_obs = {}            # (ref ident, idlen) -> observed ident
    align_problems = []
    scanned = set()
    conflicts_by_prog = {}
    pending = []
    for (vi, c, route), res in zip(jobs, results):
        p, style, names, real = variants[vi]
        exp = fam.exp[p["id"]]
        label = "%s [%s]" % (cfg_label(c), route)
        st = per.setdefault(route, {"runs": 0, "bad": 0, "files": 0})
        st["runs"] += 1
        st["files"] += len(res.get("cfiles", []))
        chk.case((p["id"], style, label), nontrivial=len(exp["out"]) > 0)
        verdict = progcheck.classify(res, exp)
        files = None
        scan = route in ("shipped", "samelimit") and c.get("std") is not None and c["idlen"] != 0 and res["phase"] != "compile" \
            and (vi, cfg_label(c)) not in scanned
        if scan or (verdict is not None and route == "shipped" and c["idlen"] != 30):
            files = read_c(res)
        if verdict is not None:
            st["bad"] += 1
            kind, sig = verdict
            key = {"kind": kind, "sig": sig, "route": route, "opts": list(c["opts"]), "style": style}
            if route == "shipped" and c["idlen"] != 30 and files is not None:
                imps = link_strings(files, "fiImportGlobal")
                base = default_imports.get(p["id"])
                if base is not None and imps - base:
                    # the names of imported library globals are spelled differently than under the limit the shipped
                    # libraries were generated with: they cannot be resolved at run time
                    key = {"kind": kind, "cause": "library-global-names-depend-on-idlen", "route": route, "idlen": c["idlen"]}
            if route == "samelimit" and c["idlen"] != 30 and re.search(r"there is no exception handler installed|no aldorRuntimeException function defined", res["out"] + res["err"]):
                # foam_c.c looks the Aldor-level handlers up under names that are written out cut at the default limit
                # (G_LKR1B_aldorUnhandledExceptio): a library generated with another limit exports them under another name
                key = {"kind": kind, "cause": "c-runtime-hardcodes-handler-names-cut-at-default-limit", "route": route, "idlen": c["idlen"]}
            pending.append((p, c, route, label, kind, sig, key, res, exp, names))
        # names: align with the untruncated output of the same program under the same other options
        if scan:
            scanned.add((vi, cfg_label(c)))
            ref = refs.get((vi, c["std"], c["smax"], c["lines"]))
            if ref:
                binds, problem = cn.align(ref, files)
                if problem:
                    align_problems.append({"program": p["id"], "cfg": label, "why": problem})
                else:
                    hk = (vi, c["idlen"], hashlib.sha1(json.dumps(binds).encode()).hexdigest())
                    if hk not in seen_bind:
                        seen_bind.add(hk)
                        events.append({"ev": "Names", "prog": p["id"], "cfg": label, "binds": binds})
                    for (scope, ent, cname) in binds:
                        if scope not in ("link", "export"):
                            spell_obs[(ent, c["idlen"])] = cname

    # ---- 7. spelling against CNames!MangleH (drift only) -----------------------------------------------------
    decoded = {}
    for (ent, il) in spell_obs:
        if ent not in decoded:
            decoded[ent] = cn.decode_ident(ent)
    hv = str_hashes(b, [d[2] for d in decoded.values() if d and d[0] in ("G", "pG") and all(32 <= ord(ch) < 127 for ch in d[2])])
    items = []
    for (ent, il), obs in sorted(spell_obs.items()):
        d = decoded[ent]
        if not d or not all(32 <= ord(ch) < 127 for ch in d[2]):
            continue
        items.append([list(d[0]), d[1], list(d[2]), hv.get(d[2], 0), il, list(obs)])
        # and the untruncated spelling itself
    for ent, d in sorted(decoded.items(), key=lambda x: x[0]):
        if d and all(32 <= ord(ch) < 127 for ch in d[2]):
            items.append([list(d[0]), d[1], list(d[2]), hv.get(d[2], 0), 0, list(ent)])
    for i in range(0, len(items), 400):
        events.append({"ev": "Spell", "items": items[i:i + 400]})

    if os.environ.get("VERIF_C16_CORRUPT"):
        # self-test of the binding: corrupt one recorded field (the C name of one entity becomes that of another)
        for e in events:
            if e["ev"] == "Names":
                ext = [bd for bd in e["binds"] if bd[0] == "extern" and bd[1] != bd[2]] or [bd for bd in e["binds"] if bd[0] == "extern"]
                if len(ext) >= 2:
                    ext[1][2] = ext[0][2]
                    break
    # ---- 8. TLC judges the recorded names ---------------------------------------------------------------------
    conflicts, drifts, tend = [], [], None
    if events:
        tdir = vlib.scratch("c16t")
        chunks = [events[i::4] for i in range(4)] if len(events) > 40 else [events]
        chunks = [c for c in chunks if c]

        def tl(i_ch):
            i, ch = i_ch
            path = os.path.join(tdir, "trace%d.ndjson" % i)
            vlib.write_ndjson(path, ch)
            return vlib.tlc("TraceCNames", "TraceCNames", workers=1, timeout=1500, env={"TRACE": path}), len(ch)
        with concurrent.futures.ThreadPoolExecutor(max_workers=4) as ex:
            for rr, n in ex.map(tl, list(enumerate(chunks))):
                chk.add_tlc("TraceCNames", rr)
                if rr.violated:
                    raise vlib.MachineryError("TraceCNames: the recorded trace was not consumed to its end (%s)\n%s" % (rr.violated, rr.trace_text[:1500]))
                ends = [json.loads(l[9:]) for l in rr.printed if isinstance(l, str) and l.startswith("TRACEEND ")]
                if not ends or ends[0]["events"] != n:
                    raise vlib.MachineryError("TraceCNames did not reach the end of the trace")
                conflicts += [json.loads(l[9:]) for l in rr.printed if isinstance(l, str) and l.startswith("CONFLICT ")]
                drifts += [json.loads(l[6:]) for l in rr.printed if isinstance(l, str) and l.startswith("DRIFT ")]
                tend = ends[0] if tend is None else {k: tend[k] + ends[0][k] for k in tend}
    for cf in conflicts:
        ents = sorted(cf["entities"])
        decs = [cn.decode_ident(e) for e in ents]
        cls = "other"
        if cf["scope"] == "export":
            cls = "duplicate-export-link-name"
        elif all(d and d[0] in ("G", "pG") for d in decs):
            hd = set(re.match(r"^p?G_([0-9A-Z]*)_", e).group(1) for e in ents)
            cls = "global-same-hash-digits-and-truncated-image" if len(hd) == 1 else "global-different-hash-digits"
        conflicts_by_prog.setdefault(cf["prog"], []).append(cf)
        chk.violation("two distinct entities get the C name %s (%s scope) in program %s under %s" % (cf["cname"], cf["scope"], cf["prog"], cf["cfg"]),
                      {"conflict": cf, "entities": ents, "style": styles.get(cf["prog"])},
                      key={"kind": "name-collision", "class": cls, "scope": cf["scope"].split(":")[0], "style": styles.get(cf["prog"])})
    for (p, c, route, label, kind, sig, key, res, exp, names) in pending:
        detail = {"program_id": p["id"], "cfg": label, "kind": kind, "sig": sig, "expected_out": exp["out"][:3000], "expected_status": exp["status"],
                  "got_out": res["out"][:3000], "got_err": res["err"][:2500], "rc": res["rc"], "phase": res["phase"],
                  "cfiles": res.get("cfiles"), "source": render.render(p, names), "abstract": p}
        chk.violation("%s under %s: program %s (%s names) %s" % (kind, label, p["id"], styles.get(p["id"]), sig), detail, key=key)

    marks["names"] = time.time() - t_start
    # ---- 8b. programs of several units -------------------------------------------------------------------------
    chk.extra["multi_unit_scenarios"] = scenarios(chk, b, wd, colp, fam.exp[colp["id"]], frame, rnd, libs.get(0) or build_libs(b, ("-Cidlen=0",)))
    marks["scenarios"] = time.time() - t_start
    # ---- 8c/8d. split boundaries from the measured estimates; the declarator family -------------------------------
    chk.case(("library", "('-Cold',)"), nontrivial=True)
    for (unit, phase, text) in oldlib["failures"]:
        chk.violation("library unit %s does not compile under %s: %s" % (unit, oldlib["opts"], phase), {"unit": unit, "opts": oldlib["opts"], "text": text},
                      key={"kind": "link-fail", "unit": unit, "opts": oldlib["opts"], "where": "library"})
    bd_info = f_bd.result()
    bd_pool.shutdown()
    deferred.replay_into(chk)
    chk.extra.update(bd_info)
    chk.extra["model_split_rows"] = sorted(split_rows, key=lambda x: (x["S"], x["N"]))[:12]
    marks["boundaries+declarators"] = time.time() - t_start
    # ---- 9. option machine: a later option of a group overrides an earlier one (drift only) -------------------
    ov_drift = []
    if variants:
        p, style, names, real = variants[0]
        ovs = rnd.sample(overrides, min(len(overrides), 8 if quick else 40)) + [default_cfg]

        def emit(opts, tag):
            d = os.path.join(wd, "ov-" + tag)
            os.makedirs(d, exist_ok=True)
            open(os.path.join(d, "p.as"), "w").write(render.render(p, names))
            vlib.aldor(b, list(opts) + ["-Fc", "-Fmain", "p.as"], d, timeout=120)
            return {os.path.basename(f): open(f, errors="replace").read() for f in sorted(glob.glob(os.path.join(d, "*.[ch]")))}
        for k, oc in enumerate(ovs):
            canon = (["-Zdb"] if oc["debug"] else []) + ["-Cstandard" if oc["std"] else "-Cold", "-Cidlen=%d" % oc["idlen"], "-Csmax=%d" % oc["smax"],
                     "-Clines" if oc["lines"] else "-Cno-lines", "-Cidhash" if oc["idhash"] else "-Cno-idhash"]
            a, bb = emit(oc["opts"], "%da" % k), emit(canon, "%db" % k)
            chk.case(("option-sequence", " ".join(oc["opts"])), nontrivial=True)
            if a != bb:
                ov_drift.append({"opts": oc["opts"], "state": canon})

    # ---- evidence ----------------------------------------------------------------------------------------------
    chk.extra["configurations_in_model"] = nmodel_cfgs
    chk.extra["configurations_of_the_statement"] = len(product)
    chk.extra["configurations_replayed"] = [cfg_label(c) for c in chosen][:80]
    chk.extra["routes"] = per
    chk.extra["programs_by_status"] = fam.status_count
    chk.extra["programs_by_name_style"] = {s: sum(1 for v in variants if v[1] == s) for s in ("plain", "long", "ops", "crafted")}
    chk.extra["model_collision_rows"] = model_rows[:12]
    chk.extra["names_judged_by_tlc"] = tend
    chk.extra["name_conflicts"] = len(conflicts)
    chk.extra["spelling_drift_count"] = len(drifts)
    chk.extra["spelling_drift"] = drifts[:8]
    chk.extra["alignment_problems"] = align_problems[:8]
    chk.extra["alignment_problem_count"] = len(align_problems)
    chk.extra["option_override_drift"] = ov_drift[:8]
    ex = [v for v in variants if v[1] in ("long", "ops")][:2]
    for (p, style, names, real) in ex:
        chk.sample({"program_id": p["id"], "name_style": style, "names": dict(list(names.items())[:6]),
                    "source_head": render.render(p, names)[:900], "expected_out": fam.exp[p["id"]]["out"][:200]})
    chk.sample({"configuration": chosen[0], "model_row": model_rows[0]})
    if events:
        e0 = [e for e in events if e["ev"] == "Names"][:1]
        if e0:
            chk.sample({"names_event": {"prog": e0[0]["prog"], "cfg": e0[0]["cfg"], "binds": e0[0]["binds"][:12]}})
    chk.rule = ("configurations = the product exported by TLC from COpts.tla ({-Cold,-Cstandard} x idlen {0,30,31,40,64} x smax {0,1,5,50} x "
                "{lines,no-lines}; quick: 16 of the 80 with every value of every dimension); programs = generated family with TLC-derived "
                "output, renamed plain / long (20..80 characters, shared prefixes of every length) / operator characters, plus programs "
                "carrying name pairs TLC derived from the collision condition; a case is (program, name style, configuration, library "
                "route); non-trivial = the specification assigns a non-empty output.  Split boundaries: (unit, limit from CSplitPlan.tla "
                "for the measured estimate, dialect), non-trivial = the limit is a boundary (N in S-1..S+1, S mod N in {0,1}, N <= 2).  "
                "Declarator family: (program, -Q level, options, library route)")
    chk.assumptions += ["gcc -O0 with -Werror=implicit-function-declaration stands for 'compiles without error'",
                        "collisions of names inside one function body or struct are compile errors and are left to gcc",
                        "entity identity = the identifier at the same token position of the -Cidlen=0 output of the same program and options",
                        "the statement estimate of a unit is not revised while the unit is generated (no Seq directly inside a Seq in the FOAM of the "
                        "replayed programs); it is measured as the smallest -Csmax under which no <unit>.h is written",
                        "-Cold output with SFlo parameters is judged against libaxllib/runtime regenerated under -Cold (the dialect mix with the shipped "
                        "standard-C archives is a recorded finding, kept visible by one run)",
                        "floating values of the declarator family are multiples of 1/4 below 2^20 (exact in single precision), carried as integers in the model"]
    marks["end"] = time.time() - t_start
    chk.extra["wall_marks_s"] = {k: round(v, 1) for k, v in marks.items()}


def replay(d):
    """bin/verif replay C16 <path>: compile the recorded source again under the recorded options and show what happens."""
    det = d.get("detail") or {}
    if not (isinstance(det, dict) and det.get("source") and det.get("cfg")):
        print("(nothing to re-run for this record: see 'detail')")
        return 0
    b = vlib.vbuild()
    wd = vlib.scratch("c16r")
    label = det["cfg"]
    opts = [o for o in label.split(" [")[0].split() if o.startswith("-C") or o == "-Zdb" or o.startswith("-Q")]
    route = label.split("[")[-1].rstrip("]") if "[" in label else "shipped"
    open(os.path.join(wd, "p.as"), "w").write(det["source"])
    kw = {}
    m = [o for o in opts if o.startswith("-Cidlen=")]
    if route == "samelimit" and m:
        info = build_libs(b, (m[0],))
        kw = {"axllib": info["axllib"], "rt": info["rt"]}
    if route == "samedialect":
        info = build_libs(b, ("-Cold",))
        kw = {"axllib": info["axllib"], "rt": info["rt"]}
    res = compile_units(b, wd, [("p", det["source"], True)], opts, **kw)
    print("options: %s   route: %s" % (" ".join(opts) or "(default)", route))
    print("phase=%s rc=%s files=%s" % (res["phase"], res["rc"], res.get("cfiles")))
    print("stdout:\n" + res["out"][:3000])
    print("stderr:\n" + res["err"][:3000])
    print("expected stdout:\n" + str(det.get("expected_out")))
    return 0


SELFTEST_NOTES = """
Binding demonstration (2026-10-04, scratch worktree /tmp/wt-c16 of /repo, VERIF_SRC=<worktree>/aldor/aldor/src,
`bin/verif check C16 --tier quick`; every mutant compiles; worktree removed afterwards).

caught (exit 1, VIOLATION lines):
  M1  genc.c l.709   `nBrothers += 1;` removed (all parts of a split unit get the same INIT__<k>_ function)
                     -> link-fail under every configuration with -Csmax > 0 (multiple definition of INIT__0_p)
  M2  genc.c l.480   gc0UnderIdLen: `gcvIdLen == 0 ||` removed (limit 0 treated as a limit of zero characters)
                     -> the axllib units regenerated with -Cidlen=0 do not compile; all -Cidlen=0 runs fail
  M3  emit.c l.1201  part file number `nf = (i > 1) ? i-1 : i` -> `(i > 2) ? i-2 : i` (two parts written to one file)
                     -> link-fail under -Csmax > 0 (undefined references to the lost part)
  M4  ccode.c l.727  old-style parameter declaration loses its `;`  -> link-fail under every -Cold configuration
  M6  genc.c gc0MultVarId: `bufPuti(buf, id)` dropped (no index in the names of constants/locals/lexicals)
                     -> `duplicate member X__LT__LT_` ...: link-fail already under the default options
  M7b ccode.c l.1018 the newline before `#line %d` dropped -> link-fail under every configuration with line numbers
                     (-Zdb -Clines).  The first try (M7, before -Zdb was part of the configurations) was MISSED: it showed that
                     -Clines alone changes nothing (emit.c: emitDoLineNos && ccLineNos()), so COpts.tla got the -Zdb action.
  M8b genc.c gc0IdHashInBuf: `% VAR_HASH` -> `% 1296` -> the names of the run-time interface no longer match the shipped
                     libraries: "13 of 13 programs do not show the specified behaviour under the DEFAULT C options"
missed:
  M5  emit.c l.1224  closing quote of the first `#line 1 "p.as"` dropped: gcc only warns (-w), the C is accepted and behaves.
  (M8, first try: exit 2 -- the TLC metadir under /tmp vanished during the run; repeated as M8b.)

corrupted record: VERIF_C16_CORRUPT=1 rewrites one field of one recorded Names event (the C name of one extern entity
  becomes that of another) before TLC reads the trace -> TraceCNames exports the CONFLICT, exit 1
  ("two distinct entities get the C name C0_p (extern scope) ...").

unchanged tree: held (exit 0, KNOWN-FINDING lines only) with VERIF_SEED = default, 11 and 977.

Strengthening round (2026-10-04, split boundaries + declarators; worktrees /tmp/wt-c16A/C/F, removed):
  seeded C16-1 (loop `nStmts >= gcvSMax')  caught: link-fail at the split boundary N = S (the measured S is one more than the true
        estimate, the failing limit is reported as N=S-1); 14 violations, all from section 8c
  seeded C16-3 (K&R declaration prints argv[0])  caught: signal 11 in every -Cold run of the declarator family below -Q3 and in the
        -Cold boundary runs of the declarator unit, plus `declarator-mismatch' from CDeclEval (dialects-differ-P0_x0)
  seeded C16-2 (qname[64])  still caught (name conflicts under idlen 64 / 0 with -Csmax)
  M9  genc.c gc0OverSMax(): `gcvNStmts > gcvSMax' -> `>='  NOT a violation (exit 0): at N = S the unit becomes <unit>.h + one C file, which is
        valid C and behaves; recorded as split_file_count_drift (17 runs: 1 C file + header where CSplitFn says 2)
  M10 ccode.c old-C CCOX_HdParam prints argv[2] (the declarator) -> caught (link-fail under every -Cold configuration: `main(argc, **argv)';
        CDeclEval also reports the PackedArrayGet/Set/asum heads)
  M11 genc.c gc0TypeRequiresDecl: FOAM_SFlo -> false (calls with SFlo arguments lose the prototype cast) -> caught ONLY by the declarator
        family: wrong-output under -Cstandard and -Cold at every level
  corrupted record: VERIF_C16_CORRUPT=1 also removes the star from one recorded old-C declaration -> CDeclEval BADHEAD, exit 1
  spec self-tests: CSplit.tla with the loop condition `>=' violates LoopAgreesWithMacro; CDeclFn.tla with the old-C declaration list
        printing the id instead of the declarator violates PrinterFaithful (initial state <<arr FiWord>>, callee old)

candidate patches tried with VERIF_SRC=/tmp/wt-c16fix: hooks/candidate-C16-link-names-independent-of-idlen.diff makes all shipped-route
  runs conform (0 of 66 bad; the finding `library-global-names-depend-on-idlen` disappears); hooks/candidate-C16-split-part-file-names.diff
  makes the scenario `unit-names-sharing-5-characters-split` conform.  With the first patch -Cidlen=0 no longer spells globals in
  full, so CNames!MangleH reports spelling drift (150 items) and the crafted-pair probe finds no frame: if that patch is applied,
  MangleH must get the same cap (the export-call scope of TraceCNames keeps detecting duplicate link names without it).
"""
