"""C12 -- The Java back end agrees with the other execution routes."""
import concurrent.futures
import hashlib
import json
import os
import re
import shutil
import sys
import time

import vlib
import progcheck
import progrun

sys.path.insert(0, os.path.join(vlib.VERIF, "gen"))
import javaslice  # noqa: E402
import javaexpr as JE  # noqa: E402
import render  # noqa: E402

META = {
    "title": "The Java back end agrees with the other execution routes",
    "level": "model_checking",
    "technique": "TLA+ reference semantics (AldorSem.tla, and AldorSemW32.tla = the same machine with a 32-bit machine integer) evaluated "
                 "by TLC gives the expected behaviour and the family membership; every program is run by aldor -Ginterp and by "
                 "aldor -Jmain -Fjava + javac + java at -Q1/-Q3/-Q9; the recorded runs are validated by TLC against the monitor "
                 "JavaRoute.tla (itself model-checked exhaustively on small constants).  Three TLC-enumerated sub-families: integer "
                 "constants around the limits of Java's int / long / BigInteger representations (JavaLits.tla -> abstract programs); "
                 "every builtin of the Java run time on sign/boundary operands and every nested pair of Java operator builtins "
                 "(JavaExprGen.tla -> expression trees, values from Builtins.tla instantiated at 32 and 64 bits, observations validated "
                 "by TraceJavaExpr.tla); the parenthesisation rule of the Java printer is model-checked against the Java grammar",
    "design_ref": "DESIGN.md 3.1 (dialects), 3.11 (Obs), 5 C12",
    "level_text": "The statement 'for every program p of the slice and level q in {1,3,9}: javac accepts the generated classes and "
                  "Out(java,p,q) = Out(interp,p,q) = AldorSem(p)' is the TLA+ module JavaRoute.tla (a monitor built on Obs.tla). TLC checks "
                  "exhaustively on small constants that the monitor accepts exactly the campaigns satisfying the statement, computes the "
                  "expected behaviour of every generated program from the explicit language semantics under both machine-integer widths, "
                  "and validates the trace of all real runs (interpreter and Java route, three levels) against the monitor; the "
                  "accept/reject decision for every run is TLC's.",
    "level_note": "Trusted: AldorSem.tla and its 32-bit variant, the libaldor renderer (purely syntactic; every admitted feature was first "
                  "compared with AldorSem on the interpreter route), javac/java 17, the shipped jars (foamj, foam, foamlib, aldor) and "
                  "libaldor.al as built by the repository; SHA-256 for comparing outputs. Family = programs whose behaviour does not "
                  "depend on the machine-integer width (Java: 32-bit int, interpreter: 64-bit word) and whose machine-integer literals fit "
                  "32 bits; exceptions (try/throw), unions, generators and arrays are not in the family yet.  Builtin expressions: "
                  "Builtins.tla / Word.tla (C04's modules, instantiated at SIntW = 32 and 64) are the definition; an expression is judged "
                  "iff it is inside every operation's domain and has the same value at both sizes; the foamj run time is compiled from "
                  "the sources of the tree under test and precedes the shipped jars on the class path; floating-point builtins and the "
                  "operations foamj declares unimplemented are outside the family.",
}

LEVELS = [1, 3, 9]
ROUTES = ["interp", "java"]
TERMINATING = ("done", "halt", "uncaught")
RUN_TIMEOUT = 150         # wall-clock backstop per tool invocation (a normal one takes well under a second)
CPU_LIMIT = 20            # processor seconds after which a compiler / interpreter run counts as not terminating


def digest(text):
    """Output text -> words below 2^31 (TLC integers are 32-bit)."""
    h = hashlib.sha256(text.encode("utf-8", "surrogateescape")).digest()
    return [int.from_bytes(h[i:i + 4], "big") & 0x7FFFFFFF for i in range(0, 16, 4)]


def spec_stdout(e):
    """The standard output the specification's behaviour amounts to in the libaldor dialect.  There `error` writes its
    message, and the run time its notice about a halt or an unhandled exception, to the standard error stream, so the
    last three atoms of such a behaviour (AldorSem.EvError: message, newline, halt notice; ThrTop: "Unhandled
    Exception: ", name, newline) are not part of stdout."""
    if e["status"] == "uncaught":
        # ThrTop appends "Unhandled Exception: ", the name, (a marker for carried values,) a newline
        at = e["atoms"]
        i = max((k for k, t in enumerate(at) if t == "Unhandled Exception: "), default=-1)
        if i < 0 or i < len(at) - 4 or at[-1] != "\n" or not all(isinstance(t, str) for t in at[i:]):
            raise vlib.MachineryError("unexpected end of an uncaught behaviour: %r" % at[-4:])
        return render.expected_text(at[:i])
    if e["status"] == "halt":
        tail = e["atoms"][-3:]
        ok = len(tail) == 3 and all(isinstance(t, str) for t in tail) and tail[1] == "\n" and "Halt" in tail[2]
        if not ok:
            raise vlib.MachineryError("unexpected end of a %s behaviour: %r" % (e["status"], tail))
        return render.expected_text(e["atoms"][:-3])
    return e["out"]


def check_toolchain():
    for tool in ("java", "javac"):
        if shutil.which(tool) is None:
            raise vlib.MachineryError("%s not found: the Java route cannot be exercised" % tool)
    for j in progrun.JAVA_JARS:
        if not os.path.exists(j):
            raise vlib.MachineryError("runtime jar missing: %s" % j)


def tlc_eval_robust(chk, progs, name, module, cfg, workers):
    """AldorSem evaluation; a program whose integers outgrow BigZ (TLC 32-bit overflow inside the oracle itself) is
    outside the oracle's reach: it is dropped and the batch evaluated again."""
    progs = list(progs)
    dropped = []
    for _ in range(6):
        exp, res = progrun.tlc_eval(progs, workers=workers, timeout=1500, cfg=cfg, module=module)
        if res.error and "Overflow when computing" in res.error:
            m = re.search(r"/\\ pid = (\d+)", res.error)
            if not m:
                raise vlib.MachineryError("%s: overflow without program id\n%s" % (module, res.error[:1500]))
            bad = progs.pop(int(m.group(1)) - 1)
            dropped.append(bad["id"])
            continue
        if res.violated:
            raise vlib.MachineryError("%s: %s violated (generator or specification defect)\n%s" % (module, res.violated, res.trace_text[-3000:]))
        return exp, dropped, ("%s[%s]" % (module, name), res)
    raise vlib.MachineryError("%s: too many programs beyond the oracle's integer range" % module)


def evaluate(chk, progs, name):
    """Both widths in parallel. Returns (exp64, exp32, ids dropped because the oracle cannot evaluate them)."""
    w = max(2, vlib.NCPU // 2)
    with concurrent.futures.ThreadPoolExecutor(2) as ex:
        f64 = ex.submit(tlc_eval_robust, chk, progs, name, "AldorSem", "AldorSem", w)
        f32 = ex.submit(tlc_eval_robust, chk, progs, name, "AldorSemW32", "AldorSemW32", w)
        (e64, d64, t64), (e32, d32, t32) = f64.result(), f32.result()
    chk.add_tlc(*t64)
    chk.add_tlc(*t32)
    return e64, e32, set(d64) | set(d32)


def extra_shapes(prog):
    """Shape predicates for the keys of known findings that concern C12's family (cf. progcheck.shape_flags)."""
    flags = set()
    rectypes = {f["x"] for f in prog["top"] if f.get("d") == "var" and isinstance(f.get("t"), list) and f["t"][0] == "rec"}
    value_changing = {"si.sub": ("si.add", "si.sub"), "si.mul": ("si.quo", "si.rem"),
                      "si.quo": ("si.mul", "si.quo", "si.rem"), "si.rem": ("si.mul", "si.quo", "si.rem")}

    def walk(x, in_loop, in_fun):
        if isinstance(x, dict):
            e = x.get("e")
            if e == "prim" and x["op"] in value_changing and len(x["args"]) == 2 and x["args"][1].get("e") == "prim" \
                    and x["args"][1]["op"] in value_changing[x["op"]]:
                flags.add("si-right-nested-arith")           # a - (b +- c), a * (b quo c), a quo (b * c) ...
            if e in ("while", "for", "forin") and not in_fun:
                in_loop = True
            if e == "asg" and in_loop and not in_fun and x["x"] in rectypes:
                flags.add("record-assigned-in-file-level-loop")
            if e in ("lam", "gen"):
                in_fun = True
            for v in x.values():
                walk(v, in_loop, in_fun)
        elif isinstance(x, list):
            for v in x:
                walk(v, in_loop, in_fun)
    walk(prog["top"], False, False)
    walk([f["body"] for f in prog["funs"]], False, True)
    return sorted(flags)


def built_of(kind):
    return {"compile-reject": "compile", "javac-fail": "javac", "timeout": "timeout", "fault": "fault"}.get(kind, "ok")


def java_sig(res, kind, sig):
    """A signature of a Java-side failure that does not depend on the program: the exception class."""
    if res["phase"] == "run" and kind in ("wrong-output", "exit-status"):
        m = re.search(r'Exception in thread "main" ([\w.$]+)', res["err"])
        if m:
            return (sig + " " if sig else "") + m.group(1)
    return sig


def campaign(chk, build, progs, name, workdir, stats, corrupt=None):
    """Evaluate, run, record, validate one batch of programs.  corrupt: self-test hook, a function applied to the
    event list before validation."""
    e64, e32, dropped = evaluate(chk, progs, name)
    progs = [p for p in progs if p["id"] not in dropped]
    stats["beyond_oracle"] = stats.get("beyond_oracle", 0) + len(dropped)
    for p in progs:
        if p["id"] not in e64 or p["id"] not in e32:
            raise vlib.MachineryError("no behaviour for program %s" % p["id"])
        if javaslice.max_si_literal(p) > javaslice.MAX32:
            raise vlib.MachineryError("program %s holds a machine-integer literal wider than 32 bits" % p["id"])
    # Python mirrors the membership test only to know what to run; the decision is re-taken by TLC (Expect) and a
    # Run event of a non-member stops the trace
    members = []
    for p in progs:
        a, c = e64[p["id"]], e32[p["id"]]
        st = a["status"]
        if st in TERMINATING and (a["status"], spec_stdout(a)) == (c["status"], spec_stdout(c)):
            members.append(p)
            stats[st] = stats.get(st, 0) + 1
        elif st in TERMINATING:
            stats["width-dependent"] = stats.get("width-dependent", 0) + 1
        else:
            stats[st] = stats.get(st, 0) + 1
    jobs = []
    for p in members:
        for route in ROUTES:
            for q in LEVELS:
                jobs.append((p, route, q, ()))
    t0 = time.time()
    results = progrun.run_many(build, jobs, workdir, timeout=RUN_TIMEOUT, cpu_limit=CPU_LIMIT,
                               timing=stats.setdefault("stage_wall", {}))
    stats["run_wall_s"] = round(stats.get("run_wall_s", 0) + time.time() - t0, 1)
    # ---- the trace ----
    events = []
    info = {}
    byprog = {}
    for (p, route, q, xa), r in zip(jobs, results):
        byprog.setdefault(p["id"], []).append((route, q, r))
    for p in progs:
        a, c = e64[p["id"]], e32[p["id"]]
        events.append({"ev": "Expect", "prog": p["id"], "s64": a["status"], "d64": digest(spec_stdout(a)),
                       "s32": c["status"], "d32": digest(spec_stdout(c))})
        for route, q, r in byprog.get(p["id"], []):
            exp = dict(a)
            exp["out"] = spec_stdout(a)
            cl = progcheck.classify(r, exp)
            built = built_of(cl[0]) if cl else "ok"
            out = progcheck.program_output(r) if built == "ok" else ""
            events.append({"ev": "Run", "prog": p["id"], "route": route, "level": q, "built": built,
                           "digest": digest(out), "cls": 0 if r["rc"] == 0 else 1})
            info[len(events)] = (p, route, q, r, cl, exp)
            chk.case((name, p["id"], route, q), nontrivial=len(exp["out"]) > 0)
    events.append({"ev": "Close"})
    if corrupt:
        corrupt(events)
    verdicts = validate(chk, events, name)
    # ---- report what TLC rejected ----
    rejected = set()
    for v in verdicts["nonconf"]:
        rejected.add(v["event"])
        p, route, q, r, cl, exp = info[v["event"]]
        if cl is None and set(v["why"]) != {"routes"} and not corrupt:
            raise vlib.MachineryError("TLC rejects run %s/%s/Q%d (%s) that the harness classifies as conforming" % (p["id"], route, q, v["why"]))
        kind, sig = cl if cl else ("route-disagreement", "")
        sig = java_sig(r, kind, sig)
        key = {"kind": kind, "sig": sig, "shapes": progcheck.shape_flags(p) + extra_shapes(p), "route": route, "opts": ["-Q%d" % q],
               "why": sorted(v["why"])}
        detail = {"program_id": p["id"], "route": route, "level": q, "why": v["why"], "kind": kind, "sig": sig,
                  "expected_out": exp["out"][:4000], "expected_status": exp["status"],
                  "got_out": r["out"][:4000], "got_err": r["err"][:3000], "rc": r["rc"], "phase": r["phase"],
                  "source": render.render(p), "abstract": p}
        chk.violation("%s on %s -Q%d: program %s %s (monitor: %s)" % (kind, route, q, p["id"], sig, ",".join(sorted(v["why"]))), detail, key=key)
    for n, (p, route, q, r, cl, exp) in info.items():
        if cl is not None and n not in rejected and not corrupt:
            raise vlib.MachineryError("harness classifies run %s/%s/Q%d as %s but TLC accepted it" % (p["id"], route, q, cl))
    for v in verdicts["incomplete"]:
        chk.violation("runs missing for program %s: %s" % (v["prog"], v["missing"]), v, key={"kind": "incomplete", "prog": v["prog"]})
    s = verdicts["summary"]
    if s["members"] != len(members) and not corrupt:
        raise vlib.MachineryError("TLC admits %d programs to the family, the harness ran %d" % (s["members"], len(members)))
    ok = s["accepted"]
    if ok != (not verdicts["nonconf"] and not verdicts["incomplete"]):
        raise vlib.MachineryError("inconsistent summary %s" % s)
    chk.traces += len(jobs)
    stats["members"] = stats.get("members", 0) + len(members)
    stats["runs"] = stats.get("runs", 0) + len(jobs)
    stats["rejected"] = stats.get("rejected", 0) + len(verdicts["nonconf"])
    return members, e64, verdicts


def validate(chk, events, name):
    d = vlib.scratch("c12trace")
    path = os.path.join(d, "trace.ndjson")
    vlib.write_ndjson(path, events)
    res = vlib.tlc("TraceJavaRoute", "TraceJavaRoute", workers=1, env={"TRACE": path}, timeout=1500)
    chk.add_tlc("TraceJavaRoute[%s]" % name, res)
    if res.violated:
        stuck = [l for l in res.printed if isinstance(l, str) and l.startswith("STUCK ")]
        raise vlib.MachineryError("trace is not a behaviour of JavaRoute (%s): %s" % (res.violated, (stuck or [res.trace_text[-1500:]])[0]))
    out = {"nonconf": [], "incomplete": [], "summary": None}
    seen = set()
    for l in res.printed:
        if not isinstance(l, str) or l in seen:
            continue
        seen.add(l)
        if l.startswith("NONCONF "):
            out["nonconf"].append(json.loads(l[8:]))
        elif l.startswith("INCOMPLETE "):
            out["incomplete"].append(json.loads(l[11:]))
        elif l.startswith("SUMMARY "):
            out["summary"] = json.loads(l[8:])
    if out["summary"] is None or out["summary"]["events"] != len(events):
        raise vlib.MachineryError("trace validation did not reach the end of the trace\n" + res.out[-1500:])
    return out


def corpus(chk, build, workdir, stats):
    """Hand-written libaldor programs outside the reach of AldorSem (machine-level builtins, characters, arrays,
    generators, unions, user domains): no independent expected value exists, so the property is checked in its literal
    form -- an equality between runs -- with the Obs monitor: the observation (build outcome, stdout, exit class) must be
    the same function of the program on every route and level."""
    cdir = os.path.join(vlib.VERIF, "gen", "c12_corpus")
    progs = []
    for f in sorted(os.listdir(cdir)):
        if f.endswith(".as"):
            progs.append({"id": "c_" + f[:-3], "source_text": open(os.path.join(cdir, f)).read(), "render_opts": {"dialect": "libaldor"},
                          "funs": [], "top": []})
    jobs = [(p, route, q, ()) for p in progs for route in ROUTES for q in LEVELS]
    results = progrun.run_many(build, jobs, workdir, timeout=RUN_TIMEOUT, cpu_limit=CPU_LIMIT)
    events, info = [], {}
    for (p, route, q, xa), r in zip(jobs, results):
        built = "timeout" if r.get("timeout") else (r["phase"] if r["phase"] in ("compile", "javac") else "ok")
        obs = [built, progcheck.program_output(r) if built == "ok" else "", 0 if r["rc"] == 0 else 1]
        events.append({"ev": "Observe", "input": p["id"], "cfg": "%s-Q%d" % (route, q), "digest": digest(json.dumps(obs))})
        info[len(events)] = (p, route, q, r, obs)
        chk.case(("corpus", p["id"], route, q), nontrivial=built == "ok" and len(r["out"]) > 0)
    d = vlib.scratch("c12obs")
    path = os.path.join(d, "trace.ndjson")
    vlib.write_ndjson(path, events)
    res = vlib.tlc("TraceObs", "TraceObsC12", workers=1, env={"TRACE": path}, timeout=600)
    chk.add_tlc("TraceObs[corpus]", res)
    if res.violated or not any(isinstance(l, str) and l.startswith("SUMMARY ") for l in res.printed):
        raise vlib.MachineryError("corpus trace not validated: %s\n%s" % (res.violated, res.out[-1500:]))
    first = {}
    for n, (p, route, q, r, obs) in sorted(info.items()):
        first.setdefault(p["id"], (route, q, r, obs))
    seen = set()
    for l in res.printed:
        m = re.match(r"DISAGREE <<(\d+),", l) if isinstance(l, str) else None
        if not m or int(m.group(1)) in seen:
            continue
        seen.add(int(m.group(1)))
        p, route, q, r, obs = info[int(m.group(1))]
        f = first[p["id"]]
        key = {"kind": "corpus-disagreement", "prog": p["id"], "route": route, "opts": ["-Q%d" % q], "built": obs[0]}
        if obs[0] in ("javac", "compile", "timeout"):
            # a build failure is reported in the vocabulary of the generated family (same known-finding keys)
            cl = progcheck.classify(r, {"status": "done", "out": ""})
            key = {"kind": cl[0], "sig": cl[1], "shapes": [], "route": route, "opts": ["-Q%d" % q], "prog": p["id"]}
        chk.violation("corpus program %s: %s -Q%d differs from %s -Q%d" % (p["id"], route, q, f[0], f[1]),
                      {"program_id": p["id"], "route": route, "level": q, "observed": obs, "reference": f[3], "reference_cfg": "%s-Q%d" % (f[0], f[1]),
                       "got_err": r["err"][:2000], "source": p["source_text"]}, key=key)
    # every corpus program must at least run on the reference configuration, otherwise it checks nothing
    for pid, (route, q, r, obs) in first.items():
        if obs[0] != "ok" or r["rc"] != 0:
            raise vlib.MachineryError("corpus program %s does not run on %s -Q%d: %s" % (pid, route, q, (r["out"] + r["err"])[:500]))
    chk.traces += len(jobs)
    stats["corpus_programs"] = len(progs)
    stats["corpus_runs"] = len(jobs)
    stats["corpus_disagreements"] = len(seen)


# ---------------------------------------------------------------------------------------------------------------
# Integer constants on the Java route (spec/JavaLits.tla)

LITS_CFG = {
    # quick: every Integer boundary, the machine-integer boundaries next to 2^15 and 2^30
    "quick": dict(Ks="{30, 31, 32, 53, 61, 62, 63, 64}", SKs="{15, 30}", GroupSize=9, Rich="FALSE", Stride=1),
    "thorough": dict(Ks="{29, 30, 31, 32, 33, 52, 53, 61, 62, 63, 64, 65, 95, 127, 128}", SKs="{7, 8, 15, 16, 29, 30}", GroupSize=5, Rich="TRUE", Stride=1),
}


def write_cfg(name, text):
    d = vlib.scratch("c12cfg")
    path = os.path.join(d, name + ".cfg")
    with open(path, "w") as fh:
        fh.write(text)
    return path


def literal_programs(chk, tier):
    """The programs TLC enumerates from the literal alphabet (JavaLits.tla): abstract programs like the generated ones."""
    c = LITS_CFG[tier]
    cfg = write_cfg("JavaLits", "SPECIFICATION Spec\nCONSTANTS Ks = %s\n SKs = %s\n GroupSize = %d\n Rich = %s\n Stride = %d\n Offset = %d\n"
                                "INVARIANT Covers\nCHECK_DEADLOCK FALSE\n" % (c["Ks"], c["SKs"], c["GroupSize"], c["Rich"], c["Stride"],
                                                                               chk.seed % c["Stride"]))
    res = vlib.tlc("JavaLits", cfg, workers=4, timeout=600)
    chk.add_tlc("JavaLits", res)
    if res.violated:
        raise vlib.MachineryError("JavaLits: %s violated\n%s" % (res.violated, res.trace_text[-1500:]))
    progs = [javaslice.to_java_slice(json.loads(l[5:])) for l in res.printed if isinstance(l, str) and l.startswith("PROG ")]
    progs.sort(key=lambda p: p["id"])
    if not progs:
        raise vlib.MachineryError("JavaLits exported no program")
    return progs


# ---------------------------------------------------------------------------------------------------------------
# Builtin expressions on the Java route (spec/JavaExpr.tla, JavaExprGen.tla, TraceJavaExpr.tla; gen/javaexpr.py)

EXPR_CFG = {
    # the builtins are applied directly, so the expressions meet the same run time and the same operator table at every
    # level: the quick tier runs every case at -Q1 and, of the nested pairs, a third (rotating with the seed) also at -Q3,
    # where the optimiser's simplifier has been over the expression first
    "quick": dict(Stride=61, Stride3=7, Core="sign", PerPair=1, NCand=24, batch=480,
                  levels=lambda kind, k, seed: [1, 3] if kind == "nest" and k % 3 == seed % 3 else [1]),
    # thorough: the limits join the complete products, every third pair of the large products, four operand choices per
    # nested pair; -Q9 on all nested pairs and on a third of the flat batches (about 25 000 expressions)
    "thorough": dict(Stride=3, Stride3=2, Core="full", PerPair=4, NCand=48, batch=300,
                     levels=lambda kind, k, seed: [1, 3, 9] if kind == "nest" or k % 3 == seed % 3 else [1, 3]),
}
EXPR_RESTARTS = 12        # a route that stops on a case (Java exception, fault) is restarted on the cases after it


class Deferred:
    """Stands in for the Check object on a worker thread: records the calls, replay() makes them on the main thread."""

    def __init__(self, chk):
        self.seed, self.calls, self.traces = chk.seed, [], 0

    def add_tlc(self, *a):
        self.calls.append(("add_tlc", a, {}))

    def case(self, *a, **k):
        self.calls.append(("case", a, k))

    def violation(self, *a, **k):
        self.calls.append(("violation", a, k))

    def replay(self, chk):
        for name, a, k in self.calls:
            getattr(chk, name)(*a, **k)
        chk.traces += self.traces


def expr_generate(chk, tier):
    c = EXPR_CFG[tier]
    cfg = write_cfg("JavaExprGen", "SPECIFICATION Spec\nCONSTANTS Stride = %d\n Stride3 = %d\n Core = \"%s\"\n Offset = %d\n PerPair = %d\n NCand = %d\n"
                                   " Parts = {\"flat\", \"nest\"}\nINVARIANT PrinterSound\nCHECK_DEADLOCK FALSE\n"
                    % (c["Stride"], c["Stride3"], c["Core"], chk.seed % 9973, c["PerPair"], c["NCand"]))
    res = vlib.tlc("JavaExprGen", cfg, workers=max(2, vlib.NCPU // 2), timeout=3000)
    chk.add_tlc("JavaExprGen", res)
    if res.violated:
        chk.violation("JavaExpr.tla: the printer's parenthesisation rule violates %s" % res.violated, res.trace_text,
                      key={"model": "JavaExpr", "inv": res.violated})
    sig = None
    for l in res.printed:
        if isinstance(l, str) and l.startswith("SIG "):
            sig = {e["op"]: e for e in json.loads(l[4:])}
    cases, nodist = JE.parse_cases(res.printed)
    if sig is None or not cases:
        raise vlib.MachineryError("JavaExprGen exported nothing\n" + res.out[-1500:])
    return sig, cases, nodist


def expr_skipkey(c):
    return (c["kind"], c["op"], c.get("slot"), c.get("child"), JE.argclass(c["tree"]))


def expr_run_config(build, batch, bi, sig, route, q, workdir, budget=None):
    """Run one batch on one configuration.  -> {case id: ("ok", values) | ("fault", text) | ("skipped", text)}.
    When the route stops on a case, that case is a fault, the later cases of the batch with the same operation and
    operand signs are skipped (not judged), and the route is restarted on the rest.  When the whole unit is refused
    (javac), the batch is halved until the refused cases stand alone; budget bounds the number of runs."""
    budget = [40] if budget is None else budget
    out = {}
    remaining = list(batch)
    for attempt in range(EXPR_RESTARTS + 1):
        if not remaining:
            break
        prog = {"id": "E%d_%d" % (bi, attempt), "source_text": JE.render(remaining, sig, chunk=JE.CHUNK if q < 5 else 6), "render_opts": {"dialect": "libaldor"},
                "funs": [], "top": []}
        if budget[0] <= 0:
            break
        budget[0] -= 1
        r = progrun.run_program(build, prog, route, workdir, q, timeout=900, cpu_limit=400)
        if r.get("timeout") or r["phase"] in ("compile", "javac"):
            cl = progcheck.classify(r, {"status": "done", "out": ""}) or ("?", "")
            if r["phase"] == "compile" and not r.get("timeout"):
                # the compiler refuses (or faults on) the unit: every case of it is without a result on this configuration
                for c in remaining:
                    out[c["id"]] = ("fault", "%s: %s" % cl)
                remaining = []
                break
            if len(remaining) == 1:
                out[remaining[0]["id"]] = ("fault", "%s: %s" % cl)
                remaining = []
                break
            # the whole unit is refused (javac): halve to find the cases that cause it
            half = len(remaining) // 2
            a = expr_run_config(build, remaining[:half], bi * 100 + 2 * attempt + 1, sig, route, q, workdir, budget)
            b = expr_run_config(build, remaining[half:], bi * 100 + 2 * attempt + 2, sig, route, q, workdir, budget)
            out.update(a)
            out.update(b)
            remaining = []
            break
        vals = JE.split_output(r["out"], remaining, sig)
        stop = next((i for i, v in enumerate(vals) if v is None), None)
        for c, v in zip(remaining[:stop], vals[:stop]):
            out[c["id"]] = ("ok", v)
        if stop is None:
            remaining = []
            break
        bad = remaining[stop]
        m = re.search(r'Exception in thread "main" ([\w.$]+)(?::\s*([^\n]*))?', r["err"])
        what = ("%s %s" % (m.group(1), (m.group(2) or "").strip())).strip() if m else \
            (progcheck.classify(r, {"status": "done", "out": None}) or ("stopped", "rc=%s" % r["rc"]))[1] or "stopped rc=%s" % r["rc"]
        out[bad["id"]] = ("fault", what)
        sk = expr_skipkey(bad)
        rest = []
        for c in remaining[stop + 1:]:
            if expr_skipkey(c) == sk:
                out[c["id"]] = ("skipped", "after " + what)
            else:
                rest.append(c)
        remaining = rest
    for c in remaining:
        out[c["id"]] = ("skipped", "restart budget used up")
    return out



def expr_validate(chk, events, name):
    """TraceJavaExpr on chunks of the trace, several TLC processes side by side (each -workers 1)."""
    if not events:
        return [], {"checked": 0, "outside": 0, "rejected": 0}
    nchunk = max(1, min(vlib.NCPU // 2, (len(events) + 1499) // 1500))
    per = (len(events) + nchunk - 1) // nchunk
    d = vlib.scratch("c12expr")

    def one(k):
        path = os.path.join(d, "%s_%d.ndjson" % (name, k))
        vlib.write_ndjson(path, events[k * per:(k + 1) * per])
        return vlib.tlc("TraceJavaExpr", "TraceJavaExpr", workers=1, env={"TRACE": path, "JAVA_TOOL_OPTIONS": "-XX:TieredStopAtLevel=1 -XX:ParallelGCThreads=2"},
                        timeout=3000, xmx="3g")
    rejects, total = [], {"checked": 0, "outside": 0, "rejected": 0}
    with concurrent.futures.ThreadPoolExecutor(nchunk) as ex:
        for k, res in enumerate(ex.map(one, range(nchunk))):
            chk.add_tlc("TraceJavaExpr[%s.%d]" % (name, k), res)
            summ = [json.loads(l[8:]) for l in res.printed if isinstance(l, str) and l.startswith("SUMMARY ")]
            n = len(events[k * per:(k + 1) * per])
            if res.violated or res.error or not summ or summ[0]["events"] != n:
                raise vlib.MachineryError("expression trace not validated (%s %s)\n%s" % (res.violated, res.error, res.out[-1500:]))
            for key in total:
                total[key] += summ[0][key]
            seen = set()
            for l in res.printed:
                if isinstance(l, str) and l.startswith("REJECT ") and l not in seen:
                    seen.add(l)
                    rj = json.loads(l[7:])
                    rj["event"] = events[k * per + rj["line"] - 1]
                    rejects.append(rj)
    return rejects, total


def expr_family(chk, build, tier, workdir, stats, corrupt=None):
    t0 = time.time()
    sig, cases, nodist = expr_generate(chk, tier)
    c = EXPR_CFG[tier]
    byid = {x["id"]: x for x in cases}
    batches, blevels = [], []
    for kind in ("nest", "flat"):
        sel = [x for x in cases if x["kind"] == kind]
        for k, i in enumerate(range(0, len(sel), c["batch"])):
            batches.append(sel[i:i + c["batch"]])
            blevels.append(c["levels"](kind, k, chk.seed))
    t1 = time.time()
    obs = {}
    with concurrent.futures.ThreadPoolExecutor(vlib.NCPU) as ex:
        # the slow configurations first
        jobs = sorted(((bi, route, q) for bi in range(len(batches)) for route in ROUTES for q in blevels[bi]),
                      key=lambda j: (-j[2], j[1] != "java"))
        futs = {j: ex.submit(expr_run_config, build, batches[j[0]], j[0], sig, j[1], j[2], workdir) for j in jobs}
        for j, f in futs.items():
            obs[j] = f.result()
    t2 = time.time()
    # one event per distinct observation of a case
    groups, skipped = {}, 0
    for (bi, route, q), res in obs.items():
        for cid, (st, v) in res.items():
            if st == "skipped":
                skipped += 1
                continue
            chk.case(("expr", cid, route, q), nontrivial=True)
            groups.setdefault((cid, st, json.dumps(v)), []).append("%s-Q%d" % (route, q))
    events, meta = [], []
    for (cid, st, vj), who in sorted(groups.items(), key=lambda x: (x[0][0], x[0][1], x[0][2])):
        v = json.loads(vj)
        events.append({"ev": "Eval", "id": cid, "who": ",".join(sorted(who)), "tree": byid[cid]["tree"], "ok": st == "ok",
                       "res": v if st == "ok" else []})
        meta.append(v if st != "ok" else None)
    if corrupt:
        corrupt(events)
    rejects, total = expr_validate(chk, events, "expr")
    if total["outside"]:
        raise vlib.MachineryError("TraceJavaExpr judges %d exported cases to be outside the family" % total["outside"])
    # ---- report: one violation per (operation, operand signs, route, kind of failure) ----
    rep = {}
    fault_text = {(e["id"], e["who"]): m for e, m in zip(events, meta)}
    for rj in rejects:
        e = rj["event"]
        cs = byid[e["id"]]
        rts = sig[cs["tree"]["op"]]["res"]
        for w in e["who"].split(","):
            route, lvl = w.split("-")
            ft = fault_text.get((e["id"], e["who"]))
            fsig = "value" if e["ok"] else re.sub(r"\d+", "N", str(ft))[:80]
            key = {"kind": "builtin-expr" if cs["kind"] == "flat" else "builtin-nest", "op": cs["op"], "route": route,
                   "argclass": JE.argclass(cs["tree"]), "sig": fsig}
            if cs["op"] in ("SIntToByte", "ByteToSInt"):      # what matters is the byte value, whatever expression yields it
                key["argclass"] = "128..255" if JE.z_of(rj["expected"][0]) >= 128 else "0..127"
            if cs["kind"] == "nest":
                key.update({"child": cs["child"], "slot": cs["slot"]})
            ent = rep.setdefault(json.dumps(key, sort_keys=True), {"key": key, "levels": set(), "examples": []})
            ent["levels"].add(lvl)
            if len(ent["examples"]) < 6:
                ent["examples"].append({"expr": JE.tree_text(cs["tree"]), "config": w,
                                        "got": JE.show_values(e["res"], rts) if e["ok"] else "(no result: %s)" % ft,
                                        "expected": JE.show_values(rj["expected"], rts)})
    for ent in rep.values():
        key = dict(ent["key"], opts=sorted("-" + l for l in ent["levels"]))
        ex0 = ent["examples"][0]
        chk.violation("%s on %s %s: %s gives %s, the specification %s" % (key["kind"], key["route"], ",".join(key["opts"]), ex0["expr"],
                                                                          ex0["got"], ex0["expected"]),
                      {"key": key, "examples": ent["examples"], "how": "gen/javaexpr.py render() of the expression, aldor -Q<n> "
                       "-Jmain -Fjava / -Ginterp (libaldor), see checks/c12.py expr_family"}, key=key)
    chk.traces += sum(1 for res in obs.values() for st, v in res.values() if st != "skipped")
    nest = [x for x in cases if x["kind"] == "nest"]
    stats["expr"] = {"cases": len(cases), "flat": len(cases) - len(nest), "nested": len(nest),
                     "nested_pairs_requiring_parentheses": len({(x["op"], x["slot"], x["child"]) for x in nest if x["req"]}),
                     "nested_pairs_with_distinguishing_operands": len({(x["op"], x["slot"], x["child"]) for x in nest if x["req"] and x["dist"]}),
                     "pairs_without_distinguishing_operands": len([x for x in nodist if x["req"] and x["n"] > 0]),
                     "printer_latent_pairs": ["%s(%s) in slot %d" % (x["op"], x["child"], x["slot"]) for x in nodist if x.get("latent")],
                     "pairs_without_member": len([x for x in nodist if x["n"] == 0]),
                     "levels_per_batch": blevels, "batches": len(batches), "observations": len(events), "judged": total["checked"],
                     "rejected": total["rejected"], "skipped_after_fault": skipped,
                     "gen_s": round(t1 - t0, 1), "run_s": round(t2 - t1, 1), "validate_s": round(time.time() - t2, 1)}
    return sig, cases


def model_check(chk, tier):
    """The monitor itself, exhaustively on small constants."""
    runs = [("JavaRouteMC", 8)] if tier == "quick" else [("JavaRouteMC", 8), ("JavaRouteMC1", 8), ("JavaRouteMC2", 8)]
    out = []
    for cfg, w in runs:
        out.append((cfg, vlib.tlc("JavaRouteMC", cfg, workers=w, timeout=1500)))
    # non-vacuity: an accepted closed campaign and a rejection are reachable
    for cfg in ("JavaRouteWitness", "JavaRouteWitness2"):
        r = vlib.tlc("JavaRouteMC", cfg, workers=2, timeout=300)
        if r.error:
            raise vlib.MachineryError("%s: %s" % (cfg, r.error))
        if not r.violated:
            raise vlib.MachineryError("%s: witness state not reachable, the monitor model is vacuous" % cfg)
    return out


def run(chk, tier):
    check_toolchain()
    b = vlib.vbuild()
    wd = vlib.scratch("c12")
    stats = {}
    with concurrent.futures.ThreadPoolExecutor(2) as bg:
        mc = bg.submit(model_check, chk, tier)
        # the builtin-expression family runs beside the program campaign (its TLC phases leave the processors idle)
        dx = Deferred(chk)
        xf = bg.submit(expr_family, dx, b, tier, vlib.scratch("c12x"), stats)
        # the hand-built probes of every admitted feature (and of the family boundary) lead the first batch
        fixed = javaslice.fixed_programs()
        lits = literal_programs(chk, tier)
        n = 20 if tier == "quick" else 900
        batch = 20 if tier == "quick" else 100
        budget = 100 if tier == "quick" else 1500
        done, k = 0, 0
        while done < n:
            m = min(batch, n - done)
            seed = (chk.seed + 12) % 1000003 + k
            nh = m // 5                       # every fifth program has the halt feature forced on
            progs = javaslice.generate(seed, m - nh) + javaslice.generate(seed + 500009, nh, force=["halt", "fun"], prefix="h")
            if k == 0:
                progs = fixed + lits + progs
            members, e64, _ = campaign(chk, b, progs, "batch%d" % k, wd, stats)
            if k == 0:
                ids = set(p["id"] for p in members)
                must = set(p["id"] for p in fixed + lits if not p["id"].startswith("X_"))
                if must - ids:
                    raise vlib.MachineryError("fixed probes fell outside the family: %s" % sorted(must - ids))
                if [i for i in ids if i.startswith("X_")]:
                    raise vlib.MachineryError("a width-dependent probe was admitted to the family")
            for p in members:
                if len(chk.samples) < 3 and len(spec_stdout(e64[p["id"]])) > 20 and not p["id"].startswith("J"):
                    chk.sample({"program": render.render(p)[:1500], "expected_out": spec_stdout(e64[p["id"]])[:300],
                                "status": e64[p["id"]]["status"]})
            done += m
            k += 1
            shutil.rmtree(os.path.join(wd, "jclasses"), ignore_errors=True)
            if time.time() - chk.t0 > budget and done < n:
                stats["stopped_early_after_programs"] = done
                break
        corpus(chk, b, wd, stats)
        xf.result()
        dx.replay(chk)
        for cfg, r in mc.result():
            chk.add_tlc(cfg, r)
            if r.violated:
                chk.violation("JavaRoute.tla violates %s" % r.violated, r.trace_text, key={"model": "JavaRoute", "inv": r.violated})
    chk.extra["programs"] = stats.get("members", 0) + stats.get("corpus_programs", 0)
    chk.extra["program_stats"] = stats
    chk.extra["levels"] = LEVELS
    chk.extra["routes"] = ROUTES
    chk.extra["features"] = javaslice.FEATURES
    chk.extra["classpath"] = progrun.JAVA_JARS
    chk.extra["expression_family"] = stats.get("expr")
    chk.rule = ("(1) programs drawn per seed from the Java slice of the typed grammar (features drawn per program; libaldor dialect; machine-integer "
                "literals within 32 bits), each evaluated by TLC under 64-bit and 32-bit machine integers and both extreme operand orders; "
                "members of the family = terminating programs with one behaviour under both widths; a case is (program, route, level) "
                "with route in {interp, java}, level in {1,3,9}; non-trivial = the specification assigns a non-empty output; "
                "(2) literal programs: TLC enumerates 2^k-1, 2^k, 2^k+1, 2^k+5 (both signs) for the exponents at which Java's int, long "
                "and the compiler's immediate big integers end, grouped into programs that print arithmetic on them; judged like (1); "
                "(3) builtin expressions: TLC enumerates, per builtin of the Java subset, operand tuples from sign/boundary sets (complete "
                "sign core, strided products of the limits; stride and offset from the tier and seed) and, per (operator builtin, operand "
                "slot, operator builtin of the slot's type), a tree on operands that tell the parenthesised and the unparenthesised "
                "reading apart; a case is (expression, route, level)")
    chk.assumptions += ["the width of the machine integer is a platform parameter (Java int = 32 bits, interpreter word = 64 bits): only "
                        "programs whose specified behaviour is the same under both widths are judged",
                        "operand evaluation order is undefined: only order-independent programs are replayed",
                        "in libaldor `error` writes to the standard error stream: the specification's halt message is not part of stdout; "
                        "the interpreter's stack listing after a halt is a diagnostic",
                        "javac/java are OpenJDK 17; foam.jar, foamlib.jar, aldor.jar and libaldor.al are those built by the repository's own "
                        "build; the foamj classes are compiled from <tree under test>/aldor/aldor/lib/java/src/foamj",
                        "builtin expressions: a Word is observed through its signed reading; the expression programs import the builtins "
                        "from Builtin and read their operands from run-time pools, so that no constant folding stands between the "
                        "expression and the back end; &&, || and >>> are in the Java printer's table but no FOAM construct is mapped to them",
                        "-(-x) is removed by the FOAM simplifier at every level, so the printer's `--x` for that pair is latent (reported in "
                        "expression_family.printer_latent_pairs, not as a violation)"]


SELFTEST_NOTES = """
Binding demonstration (2026-10-04, quick tier, scratch worktree /tmp/wt-c12 of /repo HEAD, VERIF_SRC=<worktree>/aldor/aldor/src;
the foamj run time is compiled from the worktree, the library archives foam.jar/foamlib.jar/aldor.jar are the shipped ones).

Unchanged tree: exit 0 with VERIF_SEED = 20261004, 5, 6, 7, 8 (KNOWN-FINDING lines only).

Mutations (all compile):
  M1 foamj/Math.java   rem(BigInteger): remainder -> mod                      CAUGHT  6 violations (J1_arith: ArithmeticException
                                                                                      at every level; corpus machine_bint)
  M2 genjava.c         builtin table: SIntLT -> JCO_OP_LE                      CAUGHT  9 violations (J5_loops and generated programs,
                                                                                      -Q3/-Q9 only: at -Q1 the comparison runs inside
                                                                                      the shipped aldor.jar)
  M3 javacode.c        jc0EscapeString: `"` no longer escaped                  CAUGHT  14 violations (javac-fail: J3_record, J8_strings ..)
  M4 foamj/Math.java   formatSInt(int,Object,int): prints abs(v)               missed  (entry point not used by libaldor's own integer
                                                                                      formatting; nothing in the family reaches it)
  M5 javasig.c         javaSigArgN: argv[n+3] -> argv[n+2]                     missed  (expected: Foreign-Java signatures are not exercised, see below)
  M6 foamj/Math.java   isOdd: (n & 1) == 1 -> n % 2 == 1                       CAUGHT  1 violation (corpus machine_sint: odd?(-7) via the Machine builtin)
  M7 genjava.c         builtin table: BIntIsNeg -> foamj.Math.isPos            CAUGHT  6 violations (J1_arith and generated programs at -Q3/-Q9)
  javasig.c / gf_java.c serve `import/export ... Foreign Java`; such programs cannot run on the interpreter, so the
  statement of C12 (equality with the interpreter) does not reach them.

Candidate fixes applied together in a second worktree (hooks/fix-C12-bcall-statement.diff, fix-C12-operand-parentheses.diff,
fix-C12-builtin-table.diff): quick check exits 0 and the KNOWN-FINDING lines for 'not a statement', the parentheses and the
negative shift disappear; SIntNot/BIntLength remain visible at -Q1 because there the operation runs inside the shipped aldor.jar,
which was generated by the unfixed compiler (regenerating the library archives is outside this check).

Corrupted events (checks/c12.py campaign(corrupt=...), fixed probes J1/J4/J7):
  one bit of the recorded output digest of (J4_closure, java, -Q3) flipped      -> TLC: NONCONF why = {output, routes}
  exit class of (J7_halt, java, -Q9) changed from 1 to 0                        -> TLC: NONCONF why = {status, routes}
  the Run event (J1_arith, java, -Q1) removed                                   -> TLC: INCOMPLETE missing = {<<java, 1>>}, accepted = FALSE
  a Run event of a program outside the family / a repeated run / an unknown level is no step of JavaRoute: STUCK, NotStuck violated
  (machinery error, exit 2).
JavaRouteWitness/JavaRouteWitness2.cfg: an accepted closed campaign and a rejection are reachable in the monitor model
(checked in every run; otherwise exit 2).

Thorough tier (2026-10-04, machine shared with ten other builders, load average 100-200): 500 generated programs + 14 probes, 444
family members x {interp, java} x {1,3,9} = 2664 runs + 66 corpus runs, 4.76 M TLC states, 29 min; first run found, besides the
entries above, the emerge defect (optimiser, both routes), the parentheses defect inside generated programs, and a renderer slip of
mine (0^0: libaldor's `^` returns its base when the base is 0; now spelled out by gen/render.py); second run exit 0.

Strengthening (2026-10-04, after three seeded changes the quick tier missed): JavaLits.tla (literal alphabet), JavaExpr.tla /
JavaExprGen.tla / TraceJavaExpr.tla + gen/javaexpr.py (builtin expressions: flat = run time, nested = printer's parentheses).
  /tmp/seeded/C12-1 (gj0BInt emits every immediate BInt through BigInteger.valueOf(<int literal>))   CAUGHT  18 violations, programs
        L_bi2 .. (constants 2^31 <= |v| < 2^62) at -Q3/-Q9, wrong-output
  /tmp/seeded/C12-2 (foamj.Math.gcd(int,int) as a bare Euclid loop: sign of the result)                CAUGHT  5 violations, flat SIntGcd
        with a negative second operand, -Q1
  /tmp/seeded/C12-3 (javacode.c: | and ^ get swapped precedence levels)                                CAUGHT  3 violations, nested
        SIntXOr(SIntOr(..), ..), SIntXOr(.., SIntOr(..)), SIntNot(SIntOr(..)) at -Q1/-Q3
  Further mutations through bin/seedtest (quick tier):
  M8  foamj/Math.java shiftDn(BigInteger): plain shiftRight (rounds towards minus infinity)          CAUGHT  4 violations (corpus
        c_bint_shift_neg at every level + flat BIntShiftDn of a negative)
  M9  javacode.c Plus precedence 11 -> 9                                                              CAUGHT  nested pairs with + as
        parent of << / >> (SIntPlus(SIntShiftDn(..), ..), SIntNext(SIntShiftUp(..)) ..): `a >> b + c`
  M10 genjava.c SIntIsPos: JCO_OP_GT -> JCO_OP_GE                                                     CAUGHT  20 violations (flat
        SIntIsPos(0), generated programs and J6_recursion at -Q3/-Q9)
  Corrupted observations (TraceJavaExpr.tla, 40 nested cases): faithful trace -> rejected = 0; one printed value + 1 -> REJECT with the
  expected value; every result missing -> 40 REJECT; an argument dropped from a tree -> Progress violated (machinery error);
  the width-dependent expression SIntPlus(2^31-1, 1) -> OUTSIDE (not judged; the check treats outside > 0 as a machinery error).
  Unchanged tree: exit 0 with VERIF_SEED = default, 1, 2, 3.  New findings of the unchanged tree (all Java route, reproduced by hand with
  gen/c12_repro/builtins_on_java.as): BIntLength of negatives, BIntMod with negative modulus (exception) / negative dividend (residue vs
  remainder, root = C11 finding), unsigned Byte as signed byte, SIntPlusMod / SIntTimesMod overflow in 32 bits; candidate patches
  hooks/fix-C12-*.diff applied together in a worktree make all of them disappear except the BIntMod residue/remainder disagreement.
  Timing pitfalls: at -Q5+ the printing helpers are inlined into every case, so the functions of an expression program hold 6 cases
  (40 below); a literal program carries at most ~27 printed values (javac: code too large).  INSTANCE Builtins: zero-arity
  definitions of an instantiated module are re-evaluated on every use (Sig took 60 ms): tabulate them in the instantiating module.

Admission of features to the libaldor dialect (interpreter route against AldorSem on the unchanged tree, before Java was looked at):
seeds 1, 3, 7 (~400 programs) with bi, str, fun, while, for, exit, list, rec, clos, brk, rec_fun, halt: no disagreement other than the
-Q9 inliner hang (known from C02/C03) and the front-end rejection F2; seeds 5, 6, 8 with throw.  Not admitted: arr (libaldor arrays
are 0-based, AldorSem's 1-based), un and gen (not yet compared), try (FOAM Catch is not implemented by genjava.c).
"""
