"""C01 -- Programs produce the result the language defines."""
import os
import sys

import vlib
import progcheck

sys.path.insert(0, os.path.join(vlib.VERIF, "gen"))
import progen  # noqa: E402
import fixedprogs  # noqa: E402
import smallprogs  # noqa: E402
import json  # noqa: E402

META = {
    "title": "Programs produce the result the language defines",
    "level": "model_checking",
    "technique": "TLA+ reference semantics (AldorSem.tla, CEK machine) evaluated by TLC; behaviours replayed into the compiler (interpreter and C routes)",
    "design_ref": "DESIGN.md 3.1, 5 C01",
    "level_text": "Every program of the generated typed family (and an exhaustively enumerated small family) is evaluated step by step by TLC "
                  "on the explicit language specification AldorSem.tla, with the operand order left nondeterministic as the language "
                  "leaves it; the output and exit class that TLC derives are then required of the real compiler on the interpreter route "
                  "and on the C route. The expected result never comes from the compiler.",
    "level_note": "Trusted: the transcription of the language rules in AldorSem.tla (validated rule by rule against both routes and the "
                  "User Guide), the renderer gen/render.py (purely syntactic), gcc and the shipped axllib. Family = the typed grammar of "
                  "gen/progen.py, not all of Aldor; file-level statement conditionals are excluded from the random family (known findings).",
}

FEATURES = ["bi", "str", "fun", "while", "for", "exit", "list", "arr", "rec", "un", "clos", "gen", "brk", "rec_fun"]


def run(chk, tier):
    b = vlib.vbuild()
    wd = vlib.scratch("c01")
    n = 160 if tier == "quick" else 2500
    routes = [("interp-Q1", "interp", None, ()), ("c-Q1", "c", None, ())]
    # 1. fixed programs: regressions of repaired defects and the recorded open findings
    fixed = fixedprogs.fixed_regressions(with_assert=True) + fixedprogs.findings_c01()
    fam0 = progcheck.Family(chk, fixed, "fixed", cfg="AldorSemAny", workers=4, timeout=300)
    progcheck.replay(chk, b, fam0, routes, wd)
    # 2. the exhaustively enumerated small family: TLC enumerates the expression set (SmallProgs.tla), every member is
    #    evaluated under every operand order and replayed on both routes
    sr = vlib.tlc("SmallProgs", "SmallProgs1" if tier == "quick" else "SmallProgs2", workers=8, timeout=600)
    chk.add_tlc("SmallProgs", sr)
    exprs = [json.loads(l[5:]) for l in sr.printed if isinstance(l, str) and l.startswith("EXPR ")]
    if len(exprs) < 600:
        raise vlib.MachineryError("SmallProgs exported only %d expressions" % len(exprs))
    exprs.sort(key=lambda e: json.dumps(e, sort_keys=True))
    small = smallprogs.pack(exprs, settings=smallprogs.SETTINGS[:2] if tier == "quick" else smallprogs.SETTINGS)
    fams = progcheck.Family(chk, small, "small", cfg="AldorSemAny", workers=vlib.NCPU, timeout=1500)
    progcheck.replay(chk, b, fams, routes, wd)
    chk.extra["small_family_expressions"] = len(exprs)
    chk.extra["small_family_programs"] = len(small)
    chk.extra["small_family_exhaustive"] = True
    # 3. the generated family
    per = {}
    batch = 400
    done = 0
    k = 0
    while done < n:
        m = min(batch, n - done)
        progs = progen.generate(chk.seed % 1000003 + k, m, features=None if tier == "thorough" else None)
        fam = progcheck.Family(chk, progs, "gen%d" % k, workers=vlib.NCPU, timeout=1500)
        for s, c in fam.status_count.items():
            per[s] = per.get(s, 0) + c
        r = progcheck.replay(chk, b, fam, routes, wd)
        for p in fam.replayable[:2]:
            if len(chk.samples) < 4:
                chk.sample({"program": progcheck.render.render(p)[:1500], "expected_out": fam.exp[p["id"]]["out"][:300],
                            "status": fam.exp[p["id"]]["status"]})
        done += m
        k += 1
    # 4. a sub-family dense in exceptions: throws are frequent, try expressions nest, every finally prints
    ne = 60 if tier == "quick" else 600
    eprogs = []
    for i in range(ne):
        g = progen.ProgGen(((chk.seed + 3) % 1000003) * 100003 + i, emph=("try",))
        g.feat |= {"try", "fun"}
        g.exns = g.exns or ["Ex0", "Ex1", "Ex2"]
        if i % 2:       # every second program also has exceptions that carry a value
            g.enable_payload()
        eprogs.append(g.program("x%d" % i))
    # ... and one dense in element / field stores whose right-hand sides are conditionals or blocks with effects
    for i in range(ne // 2):
        g = progen.ProgGen(((chk.seed + 5) % 1000003) * 100003 + i, emph=("store",))
        g.feat |= {"arr", "rec", "fun", "un"}
        eprogs.append(g.program("s%d" % i))
    # ... and one in which effectful functions are called often (plain generation leaves many of them dead code), with
    # guarded halts and assertions (kept at the levels C01 runs) in their bodies
    for i in range(ne // 2):
        g = progen.ProgGen(((chk.seed + 9) % 1000003) * 100003 + i, emph=("call", "halt") + (("deep",) if i % 4 == 3 else ()))
        if i % 2:
            g.feat |= {"try", "catchall"}
            g.exns = g.exns or ["Ex0", "Ex1", "Ex2"]
        g.feat |= {"fun", "halt", "assert", "tup", "coll", "list", "gen", "filt", "for", "adt", "kwd", "strop", "str", "where", "pfor", "bits"}
        eprogs.append(g.program("k%d" % i))
    # ... and programs with collect forms over generators (the generator advances in step with filter and element expression)
    eprogs += progen.generator_collect_family((chk.seed + 17) % 1000003, 20 if tier == "quick" else 300)
    # ... and programs in which a constant's value redefines a macro locally (macro definitions are lexically scoped)
    eprogs += progen.local_macro_family((chk.seed + 23) % 1000003, 12 if tier == "quick" else 150)
    fame = progcheck.Family(chk, eprogs, "exceptions", workers=vlib.NCPU, timeout=1500)
    for s_, c in fame.status_count.items():
        per["exn:" + s_] = c
    progcheck.replay(chk, b, fame, routes, wd)
    chk.extra["programs_by_status"] = per
    chk.extra["routes"] = [r[0] for r in routes]
    chk.rule = ("programs drawn per seed from the typed grammar (features drawn per program), each evaluated by TLC under both extreme "
                "operand orders (all orders for the fixed programs); a case is (program, route); non-trivial = the specification "
                "assigns it a non-empty output; programs that run out of fuel or whose result depends on the operand order are not replayed")
    chk.assumptions += ["the order of evaluation of operands is undefined (User Guide): only order-independent programs are replayed",
                        "gcc -O0 and the shipped libaxllib.a / runtime.c are taken as given"]
