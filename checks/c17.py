"""C17 - Damaged library files are refused, never silently used.

(A) TLC model-checks spec/LibFile.tla: the object-file format as lib.c writes and reads it
    (writer PutSection/PutHeader, Crash at any point, every truncation and every single-cell
    substitution of the closed file, reader GetHeader/ChkHeader/GetSection/Finish).
      LibFileRequired       reader C17 demands, format with integrity cells: DamagedRefused HOLDS
      LibFileAsWrittenInv   reader as written in lib.c: DamagedRefused is expected to FAIL (kept in evidence)
      LibFileAsWritten      exports the (cell class, damage kind, outcome) table of the as-written reader
      LibFileRequiredNoSum  same for the required reader on the format without integrity cells
                            (what remains out of reach of any reader: changed payload cells)
(B) gen/libfile.py damages REAL .ao/.al/.fm files written by the compiler built from the working
    tree, runs consuming compilations, records raw observations.
(C) TLC validates the observations with spec/TraceLibFile.tla: outcome and verdict per case come
    from the spec's Classify / Admissible; every rejected case becomes a violation keyed by
    (format, route, cell class, section, damage kind, outcome) and is matched against
    known_findings.jsonl.
"""
import json
import os
import random
import sys
import threading
from concurrent.futures import ThreadPoolExecutor

import vlib

sys.path.insert(0, os.path.join(vlib.VERIF, "gen"))
import libfile  # noqa: E402

META = {
    "title": "Damaged library files are refused, never silently used",
    "level": "model_checking",
    "technique": "TLC model checking of the object-file format (writer, crash, damage, two readers) + replay of every "
                 "truncation/substitution class into the real compiler, verdicts by a TLC trace specification",
    "design_ref": "DESIGN.md §3.10, §5 C17",
    "level_text": "explicit-state model checking (TLC) of LibFile.tla with exhaustive small constants; conformance by replay: "
                  "real .ao/.al/.fm files damaged at every header/table offset (quick) or every offset (thorough)",
    "level_note": "outcomes of the real compiler are observed (exit status, signal, outputs), not modelled at C memory level",
}

CHUNK = 40000


def _table(res):
    """printed JSON lines of a PRINT run -> {(kind, cls): set(outcomes)}"""
    t = {}
    for p in res.printed:
        try:
            d = json.loads(p) if isinstance(p, str) else p
        except ValueError:
            continue
        if isinstance(d, dict) and "cls" in d:
            t.setdefault((d["kind"], d["cls"]), set()).add(d["outcome"])
    return t


def model_runs(chk, out, thorough):
    """(A).  Runs in a thread next to the campaign; results are put into `out`.
    quick: one payload seed per section (VALS = {3}); thorough: two (VALS = {3, 11})."""
    try:
        w = 4
        q = "" if thorough else "Q"
        out["req"] = vlib.tlc("LibFile", "LibFileRequired" + q, workers=w, timeout=900)
        out["inv"] = vlib.tlc("LibFile", "LibFileAsWrittenInv" + q, workers=w, timeout=900)
        out["asw"] = vlib.tlc("LibFile", "LibFileAsWritten", workers=w, timeout=900, coverage=True)
        out["nosum"] = vlib.tlc("LibFile", "LibFileRequiredNoSum", workers=w, timeout=900)
        out["ar_req"] = vlib.tlc("ArFile", "ArFileRequired", workers=w, timeout=900)
        out["ar_asw"] = vlib.tlc("ArFile", "ArFileAsWritten", workers=w, timeout=900, coverage=True)
        out["ar_nosum"] = vlib.tlc("ArFile", "ArFileRequiredNoSum", workers=w, timeout=900)
    except Exception as e:     # re-raised in the main thread
        out["error"] = e


def validate(chk, events):
    """(C) TLC decides every case.  Returns {id: outcome} of the rejected ones."""
    d = vlib.scratch("c17trace")
    chunks = [events[i:i + CHUNK] for i in range(0, len(events), CHUNK)]
    paths = []
    for n, c in enumerate(chunks):
        p = os.path.join(d, "trace%d.ndjson" % n)
        vlib.write_ndjson(p, c)
        paths.append(p)

    def one(p):
        return vlib.tlc("TraceLibFile", "TraceLibFile", workers=1, timeout=1500, env={"TRACE": p})
    rejected = {}
    with ThreadPoolExecutor(min(8, len(paths) or 1)) as ex:
        results = list(ex.map(one, paths))
    for n, (r, c) in enumerate(zip(results, chunks)):
        chk.add_tlc("TraceLibFile[%d]" % n, r)
        if r.violated:
            raise vlib.MachineryError("trace spec run reported %s unexpectedly" % r.violated)
        acc = None
        for p in r.printed:
            try:
                o = json.loads(p) if isinstance(p, str) else p
            except ValueError:
                continue
            if not isinstance(o, dict):
                continue
            if "reject" in o:
                rejected[o["reject"]] = o["outcome"]
            elif "accepted" in o:
                acc = o
        if acc is None or acc["accepted"] != len(c):
            # some line is outside the spec's vocabulary: the harness is wrong, not the compiler
            raise vlib.MachineryError("trace chunk %d not accepted by TraceLibFile (stopped after %s of %d lines)" %
                                      (n, r.diameter, len(c)))
        ids = set(e["id"] for e in c)
        if acc["rejected"] != len([i for i in rejected if i in ids]):
            raise vlib.MachineryError("trace chunk %d: TLC counted %d rejected cases, %d were exported" %
                                      (n, acc["rejected"], len([i for i in rejected if i in ids])))
    return rejected


def vkey(e, outcome):
    k = {"format": e["fmt"], "route": e["route"], "class": e["cls"], "sect": e["sect"], "kind": e["kind"], "outcome": outcome}
    if e.get("newname"):
        # a renamed section-table entry: whether the new name duplicates a listed section, is a valid unlisted one, or is
        # no name at all are different damages (the recorded finding is about the second)
        k["newname"] = e["newname"]
    return k


def run(chk, tier):
    b = vlib.vbuild()
    rng = random.Random(chk.seed)
    thorough = tier == "thorough"

    mres = {}
    th = threading.Thread(target=model_runs, args=(chk, mres, thorough))
    th.start()

    # (B) the campaign on real files
    targets = libfile.build_targets(b)
    sample = 0 if thorough else 40
    events, details, jobs = libfile.run_campaign(b, targets, tier, rng, sample,
                                                 timeout=8.0 if thorough else 5.0, workers=max(4, vlib.NCPU - 4))
    th.join()
    if "error" in mres:
        raise mres["error"]

    # (A) results
    req, inv, asw, nosum = mres["req"], mres["inv"], mres["asw"], mres["nosum"]
    q = "" if thorough else "Q"
    for name, r in (("LibFileRequired" + q, req), ("LibFileAsWrittenInv" + q, inv), ("LibFileAsWritten", asw), ("LibFileRequiredNoSum", nosum)):
        chk.add_tlc(name, r)
    if req.violated:
        chk.violation("design model: the required reader violates %s" % req.violated, req.trace_text,
                      key={"model": "LibFile", "cfg": "LibFileRequired", "inv": req.violated})
    for act in ("PutSection", "PutHeader", "Crash", "Damage", "GetHeader", "ChkHeader", "GetSection", "Finish"):
        if asw.coverage.get(act, (0, 0))[0] == 0:
            raise vlib.MachineryError("LibFileAsWritten never took action %s" % act)
    for name, r in (("LibFileAsWritten", asw), ("LibFileRequiredNoSum", nosum)):
        if r.violated:
            chk.violation("design model %s violates %s" % (name, r.violated), r.trace_text,
                          key={"model": "LibFile", "cfg": name, "inv": r.violated})
    ar_req, ar_asw, ar_nosum = mres["ar_req"], mres["ar_asw"], mres["ar_nosum"]
    for name, r in (("ArFileRequired", ar_req), ("ArFileAsWritten", ar_asw), ("ArFileRequiredNoSum", ar_nosum)):
        chk.add_tlc(name, r)
        if r.violated:
            chk.violation("design model %s violates %s" % (name, r.violated), r.trace_text,
                          key={"model": "ArFile", "cfg": name, "inv": r.violated})
    for act in ("Damage", "RdFormat", "RdItem", "Extract", "Finish"):
        if ar_asw.coverage.get(act, (0, 0))[0] == 0:
            raise vlib.MachineryError("ArFileAsWritten never took action %s" % act)
    t_asw, t_nosum = _table(asw), _table(nosum)
    t_ar_asw, t_ar_nosum = _table(ar_asw), _table(ar_nosum)
    bad = lambda t: sorted("%s/%s:%s" % (k[0], k[1], o) for k, os_ in t.items() if k[0] in ("trunc", "subst")
                           for o in os_ if o not in ("Same", "Rejected"))
    chk.extra["model"] = {
        "as_written_violates_DamagedRefused": inv.violated == "DamagedRefused",
        "as_written_counterexample": inv.trace_text[-1500:] if inv.violated else "",
        "as_written_bad_classes": bad(t_asw),
        "required_reader_without_integrity_cells_bad_classes": bad(t_nosum),
        "archive_as_written_bad_classes": bad(t_ar_asw),
        "archive_required_reader_without_integrity_cells_bad_classes": bad(t_ar_nosum),
    }
    if not bad(t_asw) or inv.violated != "DamagedRefused":
        chk.extra["model"]["note"] = "the as-written model no longer violates DamagedRefused: it does not describe lib.c's weaknesses any more (drift)"

    # (C) verdicts
    rejected = validate(chk, events)
    chk.traces += len(events)
    by_key = {}
    observed = {}
    for e in events:
        ck = (e["fmt"], e["route"], e["cls"], e["sect"], e["kind"])
        chk.case(ck, nontrivial=e["kind"] != "none")
        o = rejected.get(e["id"])
        if e["kind"] != "none":
            mc = e["cls"]
            if e["fmt"] == "al" and mc in ("arhdr.uid", "arhdr.gid", "arhdr.mode"):
                mc = "arhdr.date"            # ArFile.tla has one cell for the numeric fields nobody uses
            observed.setdefault((e["fmt"], e["kind"], mc), set()).add(o or "ok")
        if o is None:
            continue
        k = vkey(e, o)
        by_key.setdefault(json.dumps(k, sort_keys=True), (k, []))[1].append(e)
    for ks in sorted(by_key):
        k, es = by_key[ks]
        ex = es[:4]
        what = "%s %s via %s: %s of a %s%s byte -> %s (%d cases, e.g. offset %d%s)" % (
            k["format"], libfile_name(targets, es[0]), k["route"],
            "truncation before" if k["kind"] == "trunc" else ("substitution of" if k["kind"] == "subst" else "intact file at"),
            k["class"], (" [%s]" % k["sect"]) if k["sect"] else "", k["outcome"], len(es), es[0]["off"],
            "" if k["kind"] != "subst" else " value %d" % es[0]["val"])
        det = {"examples": [{"event": e, "run": details.get(e["id"])} for e in ex],
               "repro": "python3-vt /verif/gen/libfile.py repro --fmt %s --route %s --kind %s --off %d --val %d" %
                        (k["format"], k["route"], k["kind"], es[0]["off"], max(es[0]["val"], 0))}
        chk.violation(what, det, key=k)

    # drift: the as-written MODEL's bad classes against what the real reader showed (information only)
    drift = []
    for fmt, tab in (("ao", t_asw), ("al", t_ar_asw)):
        for (kind, cls), outs in sorted(tab.items()):
            if kind not in ("trunc", "subst"):
                continue
            mbad = bool(outs - {"Same", "Rejected"})
            obs = observed.get((fmt, kind, cls))
            if obs is None:
                continue
            rbad = bool(obs - {"ok"})
            if mbad != rbad:
                drift.append({"format": fmt, "kind": kind, "class": cls, "model_as_written": sorted(outs), "real_has_violation": rbad})
    chk.extra["drift"] = drift
    nrej = len(rejected)
    chk.extra["campaign"] = {
        "targets": [{"format": t.fmt, "route": t.route, "file": t.victim, "bytes": len(t.data), "command": "aldor " + " ".join(t.args)} for t in targets],
        "damaged_files_run": len(events) - len(targets), "rejected_by_trace_spec": nrej,
        "distinct_violation_keys": len(by_key),
        "outcomes": _hist(events, rejected),
    }
    for e in events:
        if e["id"] in rejected and len(chk.samples) < 4:
            chk.sample({k: e[k] for k in ("fmt", "route", "kind", "off", "val", "cls", "sect", "exit", "sig", "timeout", "fault", "diag", "same")})
    for e in events:
        if e["id"] not in rejected and e["kind"] != "none" and len(chk.samples) < 6:
            chk.sample({k: e[k] for k in ("fmt", "route", "kind", "off", "val", "cls", "sect", "exit", "sig", "timeout", "fault", "diag", "same")})
    chk.rule = ("one case = (format, consuming route, cell class, section, damage kind) of a real file; quick: every offset of "
                "header, section table, archive headers and name table (3 substituted values + truncation each), every class "
                "boundary +-1 and %d seeded offsets elsewhere; thorough: every offset, 5-7 values; intact controls are trivial" % sample)
    chk.exhaustive = thorough
    chk.assumptions += [
        "valid files: prog.ao/.fm, lib1.ao, libmy.al (two members, one with a long name) compiled from sources in gen/libfile.py",
        "substituted values are a fixed function of the original byte (b^1, 0, 255, b^128, b+1); not all 255 alternatives",
        "a timeout is reported as Hang only if it repeats alone with a limit of >= 20 s",
        "outputs compared: stdout and every file the compilation creates; stderr is not compared",
    ]


def _hist(events, rejected):
    h = {}
    for e in events:
        o = rejected.get(e["id"], "admissible")
        k = "%s/%s/%s" % (e["fmt"], e["route"], e["kind"])
        h.setdefault(k, {}).setdefault(o, 0)
        h[k][o] += 1
    return h


def libfile_name(targets, e):
    for t in targets:
        if t.fmt == e["fmt"] and t.route == e["route"]:
            return t.victim
    return "?"


def replay(d):
    """bin/verif replay C17 <path>: re-run the first example of a recorded violation."""
    det = d.get("detail") or {}
    print(det.get("repro", "(no repro command recorded)"))
    if "repro" in det:
        return os.system(det["repro"])
    return 0


SELFTEST_NOTES = """
Binding demonstration (2026-10-04, quick tier, unchanged tree = /repo 7a01893, known_findings.jsonl in place;
each mutation made in a scratch worktree, VERIF_SRC=<worktree>/aldor/aldor/src bin/verif check C17 --tier quick):

 M2 lib.c libChkHeader: contiguity test of the section table disabled (`if( 0 && offset != ...`)
      -> CAUGHT: VIOLATION al/ao (member.)tbl.offset subst -> Fault (sections read from the wrong offset), 5+ keys
 M3 sexpr.c sxiRdSlurpSpaces: end of file inside a list closes the list instead of SX_ErrReadEOF
      -> CAUGHT: VIOLATION fm fm.close / fm.number.* trunc -> Fault (truncated FOAM text accepted), 5+ keys
         (no truncation of an .fm is a violation on the unchanged tree)
 M6 archive.c arReadString: short read not reported
      -> CAUGHT: VIOLATION al arhdr.* trunc -> Hang, arhdr.size subst -> Fault
 M1 lib.c libChkHeader: `numSect <= LIB_INDEX_LIMIT` test removed           -> missed (exit 0): on this tree the result of
      libChkHeader is ignored and a later "bad section name" error still makes the exit status non-zero: not observable
 M4 lib.c libChkHeader: first-section-offset test removed                    -> missed: equivalent here (the contiguity test of
      entry 1 and the unchanged findings for tbl.offset cover the same bytes)
 M5 archive.c arReadNumber: any text accepted as a number                    -> missed: no outcome changes class (still Rejected/Same)
 M10 archive.c arSeek: end-of-archive test removed                           -> exit 2 (corpus cannot be compiled: libaxllib.al unreadable)

 Candidate fixes: with hooks/fix-C17-{honour-chkheader,section-table-consistency,short-reads-and-extent}.diff applied
 (worktree, thinned thorough run, 42 398 cases) the distinct (format,class,kind,outcome) violation classes drop from 65 to 33:
 every truncation class and every .ao header/table class disappears except `tbl.name subst -> Fault`; what remains is
 payload substitution (.ao/.al sections, .fm text: needs an integrity check in the format, cf. LibFileRequiredNoSum) and
 three archive-member header classes (member extent is only checked against the archive size).

 Corrupted events (TraceLibFile.cfg on a one-line trace): an admissible line {exit:1, diag:true} -> accepted, 0 rejected;
 the same line with diag:false -> rejected as "Silent"; with exit:0 -> rejected as "Garbage"; with cls:"bogus" -> no action
 matches, the trace is not accepted (MachineryError "trace chunk not accepted").

 A false alarm found and removed while building: the fault-marker regex matched the ordinary diagnostic
 "Archive ... is truncated or corrupted"; all archive-header Fault classes it produced were harness errors, not findings.

 Unchanged tree: exit 0 with seeds 20261004 (default), 11, 222 after the findings were recorded; truncations inside the LAST
 section of an .ao (`fileid') flip between Fault/Rejected/Garbage from run to run (uninitialised buffer), so the three
 `sect.* trunc -> Garbage` findings were confirmed by repetition (gen/libfile.py repro ... --off 9424/9428/9431).

Update after the lead committed the three fixes (/repo cd62b20 = 8386d63 + cc3e710 + cd62b20):
 * known_findings.jsonl: 34 C17 lines are now status "fixed" (commit attributed by quick runs at each of the three commits);
   19 stay open: 15 payload-substitution classes keyed (format, class, kind) - the key covers the outcome set
   {Fault, Garbage, Hang} because which one occurs is incidental - plus ao/al tbl.name subst -> Fault,
   al member.tbl.length subst -> Fault and al member.numSect subst -> Fault (a class that APPEARED with cc3e710: genuine,
   deterministic; candidate fixes hooks/fix-C17-unused-table-entries.diff and hooks/candidate-C17-archive-member-extent.diff,
   with both the quick tier shows no violation and one finding fewer).
 * determinism: seeds 1, 2, 3, 5, 99 and 20261004 -> exit 0 with the identical set of 19 KNOWN-FINDING lines; the same seed
   twice -> identical.  The .fm quick sample now has a seed-independent base (24 offsets per token class) besides the
   seeded extras.  Exhaustive side runs on the repaired tree: all 11 170 truncations of small.fm on both routes and
   all substitutions (6 values) of every fm.close / fm.string.quote byte are Rejected or Same, so no seed can alarm there;
   every truncation of .ao/.al is refused by the extent check.
 * mutation on the repaired tree: libGetHeader without `|| !libChkExtent(lib)` -> CAUGHT (4 VIOLATIONs: numSect subst -> Fault
   on all three .ao routes, tbl.length subst -> Fault): "fixed" lines suppress nothing.
"""
