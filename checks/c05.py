"""C05 -- Saved intermediate forms and separate compilation lose nothing."""
import concurrent.futures
import json
import os
import random
import re
import shutil
import sys

import vlib
import progcheck
import progrun

sys.path.insert(0, os.path.join(vlib.VERIF, "gen"))
import progen  # noqa: E402
import render  # noqa: E402
import units  # noqa: E402
import wideunits  # noqa: E402
import typeprogs  # noqa: E402

META = {
    "title": "Saved intermediate forms and separate compilation lose nothing",
    "level": "model_checking",
    "technique": "Units.tla (derivation paths over .ao/.fm/.al, splits) enumerated by TLC and replayed with the real compiler; "
                 "every step and comparison validated by TLC as a trace of Units (TraceUnits.tla); SIntReduce.tla (transcription of "
                 "foamSIntReduce, Eval(Reduce(c)) = c) evaluates every re-expressed constant; AldorSem.tla gives the behaviour; "
                 "FoamCodec.tla (byte codec of FOAM with the width choice as a step; node family replayed into foam.c by "
                 "harness/foamcodec_drv.c, validated by TraceFoamCodec.tla; units that reach every field kind beyond one byte); "
                 "SefoCodec.tla (type section: writer / reader / skipper; real sections validated by TraceSefoCodec.tla; "
                 "library + client programs over every leaf kind of a type expression)",
    "design_ref": "DESIGN.md 3.11 (Units, SIntReduce), 5 C05",
    "level_text": "TLC enumerates every chain of at most 4 saved forms x {Q0,Q2,Q9} x final kind (294 paths) and every split of 3 movable "
                  "definitions x library form x levels x route (252) from Units.tla and checks Commute / Resave / Archive identity on the "
                  "model; each path is performed with the compiler built from the working tree and recorded step by step; TraceUnits.tla "
                  "accepts the record only if every step is a Units step, the C / FOAM / Lisp text from the saved form equals the text "
                  "generated from the source (bytes after the file-name line; tokens after each foamSIntReduce expression was replaced by "
                  "the value TLC computes with SIntReduce.tla), fm -> fm and archive/extract reproduce the bytes, and every run prints "
                  "what TLC derived from AldorSem.tla.  SIntReduce.tla is checked exhaustively at W = 8 (3-bit pieces) and on the "
                  "64-bit boundary set incl. -2^63.  FoamCodec.tla: every field kind x {0,1,2,3,254,255,256,257,65535,65536} "
                  "(about 960 nodes), every admissible format is read back by the tree, header and skipping reader; the real "
                  "foamToBuffer / foamFrBuffer / foamGetProgHdrFrBuffer / foamConstvFrBuffer are driven through the same nodes "
                  "and TLC decodes the real bytes; 12 kinds of generated units (11 in the quick tier) reach indices 255..260 (locals, parameters, "
                  "globals, constants, lexicals, record fields, formats, labels, strings, names, big integers) and go through "
                  ".ao / .al like every other program (TLC checks that every field kind it enumerates was reached).  "
                  "SefoCodec.tla: 87 type sections over identifier / integer / float / string leaves, applications, "
                  "declarations, nesting; skipper and reader agree with the writer; TLC reads the type section of every "
                  "library the check builds; 43 type-expression shapes exported by TLC become library + client programs "
                  "whose run must equal the one-unit program.",
    "level_note": "Trusted: AldorSem.tla, renderer, tokenisers of gen/units.py, gcc, ar, shipped libraries.  Floating-point constants are "
                  "not in the generated family (no floats in AldorSem/render; C19 covers their save/reload); they occur in the corpus "
                  "sample, where only equality between paths is decided (no independent expected output).  Lisp is compared as text, "
                  "not run.  FoamCodec.tla decodes the bytes of the node family written by the real foamToBuffer, not yet the FOAM "
                  "section of a whole .ao.  For the wide units written as text (domain state, multiple values, long names, long "
                  "Integer literal) and for the type-expression programs no expected output exists: only equality between the "
                  "arrangements is decided.  fint.c (the interpreter reads the same bytes with its own reader) is bound through "
                  "the runs only.  harness/foamcodec_drv.c and gen/wideunits.measure are trusted to build / measure what they say.",
}

LEVELS = ["Q0", "Q2", "Q9"]
# language features of gen/progen.py used here (plus try and mac with probability 0.3; halt is C03's subject, overloading is not used)
STABLE_FEATURES = ["bi", "str", "while", "for", "exit", "list", "arr", "rec", "un", "clos", "gen", "brk", "rec_fun", "dom"]


# ------------------------------------------------------------------------------------------------------------------
def models(chk, tier):
    cfgs = ["SIntReduce8", "SIntReduce64"] + (["SIntReduce12", "SIntReduce16"] if tier != "quick" else [])
    with concurrent.futures.ThreadPoolExecutor(max_workers=4) as ex:
        fu = ex.submit(vlib.tlc, "Units", "Units", workers=2, timeout=300, coverage=True)
        fd = ex.submit(vlib.tlc, "Units", "UnitsDeep", workers=2, timeout=600) if tier != "quick" else None
        fr = [(cfg, ex.submit(vlib.tlc, "SIntReduce", cfg, workers=4, timeout=1200)) for cfg in cfgs]
        r = fu.result()
        rs = [(cfg, f.result()) for cfg, f in fr]
    chk.add_tlc("Units", r)
    if r.violated:
        chk.violation("Units.tla violates %s" % r.violated, r.trace_text, key={"model": "Units", "inv": r.violated})
    if fd is not None:         # model only: chains of up to 7 saved forms, 4 movable definitions
        rd = fd.result()
        chk.add_tlc("UnitsDeep", rd)
        if rd.violated:
            chk.violation("Units.tla (UnitsDeep) violates %s" % rd.violated, rd.trace_text, key={"model": "UnitsDeep", "inv": rd.violated})
    paths, splits = {}, {}
    for l in r.printed:
        if isinstance(l, str) and l.startswith("PATH "):
            p = json.loads(l[5:])
            paths[(p["level"], tuple(p["chain"]), p["final"])] = p
        elif isinstance(l, str) and l.startswith("SPLIT "):
            s = json.loads(l[6:])
            splits[json.dumps(s, sort_keys=True)] = s
    if len(paths) < 250 or len(splits) < 200:
        raise vlib.MachineryError("Units.tla exported only %d paths / %d splits" % (len(paths), len(splits)))
    for act in ("Save", "Observe", "Split", "LinkRun"):
        if r.coverage.get(act, (0, 0))[0] == 0:
            raise vlib.MachineryError("Units.tla: action %s never taken" % act)
    for cfg, rr in rs:
        chk.add_tlc(cfg, rr)
        if rr.violated:
            chk.violation("SIntReduce.tla (%s): %s is violated -- the re-expression does not denote the constant" % (cfg, rr.violated),
                          rr.trace_text, key={"model": "SIntReduce", "cfg": cfg, "inv": rr.violated})
    return sorted(paths.values(), key=lambda p: (p["level"], p["chain"], p["final"])), \
        sorted(splits.values(), key=lambda s: json.dumps(s, sort_keys=True))


def wide_all_program(seed=None, pid="wideall"):
    """One hand-built program that prints every wide boundary constant (through a function and at file level);
    with a seed: 24 random machine integers of 33..64 bits instead."""
    from progen import lit, prim, var, SI, BI
    funs, top, order = [], [], []
    nl = {"e": "str", "s": "\n"}
    cs = list(progen.SI_WIDE)
    if seed is not None:
        r = random.Random(seed)
        cs = []
        for _ in range(24):
            n = max(r.getrandbits(r.randint(33, 63)), 2**31)
            cs.append(-n if r.random() < 0.5 else n)
    for i in range(0, len(cs), 4):
        grp = cs[i:i + 4]
        args = []
        for c in grp:
            args += [lit(SI, c), {"e": "str", "s": " "}]
        top.append({"d": "stmt", "x": {"e": "print", "args": args[:-1] + [nl]}})
        order.append(["t", len(top) - 1])
    for k, c in enumerate(cs[:6]):
        m = prim("si.mod", var("xp"), lit(SI, 1000))
        funs.append({"name": "wf%d" % k, "ps": ["xp"], "pts": [SI], "rt": SI, "pure": True,
                     "body": {"e": "seq", "es": [prim("si.sub", lit(SI, c), m) if c > 0 else prim("si.add", lit(SI, c), m)], "t": SI}})
        order.append(["f", len(funs) - 1])
        top.append({"d": "stmt", "x": {"e": "print", "args": [{"e": "call", "fi": len(funs), "args": [lit(SI, 1234 + k)]}, nl]}})
        order.append(["t", len(top) - 1])
    top.append({"d": "var", "x": "m1", "t": SI, "init": prim("si.sub", lit(SI, -(2**63 - 1)), lit(SI, 1))})
    order.append(["t", len(top) - 1])
    top.append({"d": "stmt", "x": {"e": "print", "args": [var("m1"), {"e": "str", "s": " "}, lit(BI, 2**63), {"e": "str", "s": " "},
                                                          lit(BI, -(2**63) - 1), nl]}})
    order.append(["t", len(top) - 1])
    return {"id": pid, "funs": funs, "top": top, "order": order, "recs": [], "uns": [], "feat": ["fixed", "extreme"], "seed": 0}


def cross_unit_programs():
    """Hand-built programs that keep the two cross-unit inlining findings visible (client at -Q9 against a library at -Q2):
    a generator-valued library function calling another library function; a library function that throws an exception
    declared in the library and is caught in the client.  Each comes with the indices of its library functions."""
    from progen import lit, prim, var, SI, UNIT
    nl = {"e": "str", "s": "\n"}

    def fun(name, ps, pts, rt, body, pure=False):
        return {"name": name, "ps": ps, "pts": pts, "rt": rt, "body": body, "pure": pure}

    def pr(*a):
        return {"e": "print", "args": list(a) + [nl]}
    f1 = fun("ga", [], [], SI, {"e": "seq", "t": SI, "es": [pr({"e": "str", "s": "a"}), lit(SI, 1)]})
    f6 = fun("gb", ["p"], [SI], ["gen", SI],
             {"e": "gen", "et": SI, "body": {"e": "seq", "t": UNIT, "es": [{"e": "yield", "v": {"e": "call", "fi": 1, "args": []}},
                                                                          {"e": "yield", "v": var("p")}]}})
    f11 = fun("gc", ["q"], [SI], SI,
              {"e": "let", "x": "v", "t": SI, "v": var("q"),
               "body": {"e": "seq", "t": SI, "es": [{"e": "forin", "x": "e", "et": SI, "src": {"e": "call", "fi": 2, "args": [var("q")]},
                                                     "body": {"e": "seq", "t": UNIT, "es": [{"e": "asg", "x": "v", "v": lit(SI, -3)}]}},
                                                    var("g9")]}})
    gen = {"id": "xunit_gen", "funs": [f1, f6, f11], "recs": [], "uns": [], "feat": ["fixed", "gen"], "seed": 0,
           "top": [{"d": "var", "x": "g9", "t": SI, "init": lit(SI, 5)},
                   {"d": "stmt", "x": pr({"e": "call", "fi": 3, "args": [lit(SI, 2)]})}],
           "order": [["f", 0], ["f", 1], ["t", 0], ["f", 2], ["t", 1]]}
    th = fun("ta", ["p"], [SI], SI,
             {"e": "seq", "t": SI, "es": [{"e": "exit", "c": prim("si.eq", var("p"), lit(SI, 0)), "v": {"e": "throw", "exn": "Ex0", "args": []}},
                                          prim("si.add", var("p"), lit(SI, 41))]})
    th["thrower"] = True
    ca = fun("tb", ["q"], [SI], SI,
             {"e": "try", "t": SI, "body": {"e": "call", "fi": 1, "args": [var("q")]},
              "hs": [{"exn": "Ex0", "ps": [], "body": lit(SI, 7)}], "fin": {"e": "none"}})
    thr = {"id": "xunit_throw", "funs": [th, ca], "recs": [], "uns": [], "exns": ["Ex0"], "feat": ["fixed", "try"], "seed": 0,
           "top": [{"d": "stmt", "x": pr({"e": "call", "fi": 2, "args": [lit(SI, 0)]}, {"e": "str", "s": " "},
                                         {"e": "call", "fi": 2, "args": [lit(SI, 1)]})}],
           "order": [["f", 0], ["f", 1], ["t", 0]]}
    return [(gen, [0, 1]), (thr, [0])]


def family(chk, n, sizes=(6, 10, 16)):
    base = (chk.seed + 5) % 1000003
    progs = [wide_all_program(), wide_all_program(base, "widerand")] + [p for p, _ in cross_unit_programs()]
    for i in range(n):
        rf = random.Random(base * 31 + i)
        feats = ["fun"] + [f for f in STABLE_FEATURES if rf.random() < 0.6] + [f for f in ("try", "mac") if rf.random() < 0.35]
        # with exceptions: the dense sub-family (functions that throw, nested try drivers), so that a split can put the
        # thrower into the library unit and leave the catcher in the client
        g = progen.ProgGen(base * 100003 + i, features=feats, size=rf.choice(sizes), emph=("try",) if "try" in feats else ())
        if "try" in feats:
            g.exns = g.exns or ["Ex0", "Ex1", "Ex2"]
        # functions generated before any file-level variable exists cannot capture one: they can be moved into a library unit
        for _ in range(2):
            g.function()
        p = g.program("u%d_%d" % (base, i))
        progs.append(progen.add_extremes(p, base * 7 + i, huge=(i % 2 == 0)))
    return progs


def corpus(chk, b, n, wd):
    """n programs of the repository's axllib test suite that compile alone without messages and run to exit 0."""
    rnd = random.Random(chk.seed + 11)
    cands = [c for c in units.corpus_candidates() if os.path.getsize(c) < 8000 and os.path.basename(c)[:-3].isalnum()]
    cands = [c for c in cands if re.search(r"^--> test(run|int|comp)", open(c, errors="replace").read(), re.M)]
    rnd.shuffle(cands)
    out = []

    def probe(path):
        text = open(path, errors="replace").read()
        d = os.path.join(wd, "probe_" + os.path.basename(path)[:-3])
        os.makedirs(d, exist_ok=True)
        open(os.path.join(d, "p.as"), "w").write(text)
        # usable as a reference only if the directly compiled program runs at every level the paths use (a corpus program that
        # the interpreter cannot run at -Q0 -- rawrec1: `fintEval: RRFmt unimplemented' -- says nothing about saved forms)
        good = True
        for q in LEVELS:
            rc, o, e, to = vlib.aldor(b, ["-" + q, "-Ginterp", "p.as"], d, timeout=40)
            good = good and rc == 0 and not to and b"Error)" not in o + e and b"Warning)" not in o + e and 0 < len(o) < 20000
            if not good:
                break
        shutil.rmtree(d, ignore_errors=True)
        return text if good else None
    with concurrent.futures.ThreadPoolExecutor(max_workers=8) as ex:
        for path, text in zip(cands[:5 * n], ex.map(probe, cands[:5 * n])):
            if text is not None and len(out) < n:
                out.append({"id": "corpus_" + os.path.basename(path)[:-3], "text": text, "path": path})
    return out



# ------------------------------------------------------------------------------------------------------------------
# the two codecs: FOAM bytes (class `width of indices and counts') and the type section (class `types seen by a client')

WIDE_ABSTRACT = ["loc", "glo", "rec", "fmt", "clos", "label", "par", "str"]
WIDE_TEXT = ["domlex", "multi", "name", "bint"]
# levels at which a kind is performed in the quick tier besides the level the seed picks (the optimiser removes the
# 260-field record of `rec' altogether above -Q0, and the record format of `fmt' is a local's format only at -Q0)
WIDE_FIXED_LEVEL = {"rec": ["Q0"], "fmt": ["Q0"], "multi": ["Q0"], "clos": ["Q2"], "bint": ["Q2"]}
WIDE_ONLY_FIXED = ("rec", "bint", "multi")     # bint: Integer literals are folded into BInt constants from -Q2 on only
SECT_NAMES = ["syme", "foam", "fsyme", "pos", "postbl", "name", "kind", "file", "lazy", "type", "inline", "twins", "extend",
              "doc", "foreign", "fileid", "macros"]


def codec_models(chk, tier):
    """TLC on FoamCodec.tla / SefoCodec.tla; returns (node cases, field kinds to reach, type-expression shapes)."""
    quick = tier == "quick"
    with concurrent.futures.ThreadPoolExecutor(max_workers=5) as ex:
        # no -coverage here: with the recursive readers its bookkeeping makes these runs 100 times slower (3 s -> 450 s)
        ff = ex.submit(vlib.tlc, "FoamCodec", "FoamCodec", workers=2, timeout=600)
        fa = ex.submit(vlib.tlc, "FoamCodec", "FoamCodecAsWritten", workers=1, timeout=600)
        fs = ex.submit(vlib.tlc, "SefoCodec", "SefoCodec", workers=2, timeout=600)
        fd = ex.submit(vlib.tlc, "FoamCodec", "FoamCodecDeep", workers=2, timeout=1200) if not quick else None
        fx = ex.submit(vlib.tlc, "SefoCodec", "SefoCodecSharp", workers=1, timeout=600) if not quick else None
        rf, ra, rs = ff.result(), fa.result(), fs.result()
        rd = fd.result() if fd else None
        rx = fx.result() if fx else None
    for name, r in (("FoamCodec", rf), ("SefoCodec", rs), ("FoamCodecDeep", rd)):
        if r is None:
            continue
        chk.add_tlc(name, r)
        if r.violated:
            chk.violation("%s.tla violates %s" % (name.replace("Deep", ""), r.violated), r.trace_text, key={"model": name, "inv": r.violated})
    # every case goes pick -> chosen -> written -> read (-> done): the diameter tells that the readers were run
    if (rf.diameter or 0) < 5 or rf.distinct < 4000:
        raise vlib.MachineryError("FoamCodec.tla: %s distinct states, diameter %s: the machine did not run through" % (rf.distinct, rf.diameter))
    if (rs.diameter or 0) < 4 or rs.distinct < 300:
        raise vlib.MachineryError("SefoCodec.tla: %s distinct states, diameter %s: the machine did not run through" % (rs.distinct, rs.diameter))
    # the transcription of foamTagFormat without the exemptions: which tags get an inadmissible format (information; the
    # real routine is judged by the replay below)
    if ra.error:
        raise vlib.MachineryError("FoamCodecAsWritten: " + str(ra.error))
    chk.extra["foamTagFormat_as_transcribed"] = {"ChoiceOK_violated": bool(ra.violated),
                                                 "counterexample": (ra.trace_text or "")[:600]}
    if rx is not None:
        if rx.error:
            raise vlib.MachineryError("SefoCodecSharp: " + str(rx.error))
        if not rx.violated:
            raise vlib.MachineryError("SefoCodec.tla: IndexOK holds although the skipper does not know float literals (invariant not sharp)")
    cases = [json.loads(l[5:]) for l in rf.printed if isinstance(l, str) and l.startswith("CASE ")]
    fields = [json.loads(l[6:]) for l in rf.printed if isinstance(l, str) and l.startswith("FIELD ")]
    shapes = [json.loads(l[5:]) for l in rs.printed if isinstance(l, str) and l.startswith("TYPE ")]
    if len(cases) < 800 or len(fields) < 50 or len(shapes) < 30:
        raise vlib.MachineryError("codec models exported %d cases / %d fields / %d shapes" % (len(cases), len(fields), len(shapes)))
    cases.sort(key=lambda c: json.dumps(c["node"], sort_keys=True))
    shapes.sort(key=lambda c: json.dumps(c, sort_keys=True))
    return cases, fields, shapes


def node_text(n):
    if "v" in n:
        return str(n["v"])
    return "(" + " ".join([n["tag"]] + [node_text(x) for x in n["a"]]) + ")"


NEVER_BUILT = ("TR",)        # FOAM_TR occurs as a type tag only (genfoam.c); no TR node is ever built


def foam_replay(chk, b, cases, wd):
    """The node family of FoamCodec.tla through the real routines of foam.c; TLC (TraceFoamCodec.tla) decides."""
    h = vlib.harness_build("foamcodec_drv", [os.path.join(vlib.VERIF, "harness/foamcodec_drv.c")], b)
    d = os.path.join(wd, "foamcodec")
    os.makedirs(d, exist_ok=True)
    cases = [c for c in cases if c["node"]["tag"] not in NEVER_BUILT]
    with open(os.path.join(d, "cases.txt"), "w") as fh:
        for c in cases:
            fh.write(node_text(c["node"]) + "\n")
    rc, o, e, to = vlib.run([h, "tags", os.path.join(d, "tags.ndjson")], cwd=d, timeout=60)
    if rc != 0 or to:
        raise vlib.MachineryError("foamcodec_drv tags: rc=%s %s" % (rc, e.decode(errors="replace")[-300:]))
    rc, o, e, to = vlib.run([h, "run", os.path.join(d, "cases.txt"), os.path.join(d, "out.ndjson")], cwd=d, timeout=600)
    if rc != 0 or to:
        raise vlib.MachineryError("foamcodec_drv run: rc=%s %s" % (rc, e.decode(errors="replace")[-300:]))
    tags = json.loads(open(os.path.join(d, "tags.ndjson")).read())
    tags["argf"] = [list(x) for x in tags["argf"]]
    evs = [tags]
    lines = open(os.path.join(d, "out.ndjson")).read().splitlines()
    if len(lines) != len(cases):
        raise vlib.MachineryError("foamcodec_drv answered %d of %d cases" % (len(lines), len(cases)))
    nil = {"tag": "Nil", "a": []}
    for l, c in zip(lines, cases):
        ev = json.loads(l)
        ev["node"] = c["node"]
        ev["case"] = {"adm": c["adm"], "asw": c["asw"]}
        for k, v in (("tend", 0), ("back", nil), ("hdr", []), ("unit", False), ("wb", []), ("constc", -1), ("posv", []), ("fmts", nil)):
            ev.setdefault(k, v)
        evs.append(ev)
    hook = os.environ.get("VERIF_C05_CORRUPT")
    if hook == "codec":          # self-test: one recorded byte of one encoding changed
        for ev in evs[1:]:
            if ev["node"]["tag"] == "Lex" and len(ev["bytes"]) > 5:
                ev["bytes"][1] ^= 1
                break
    trace = os.path.join(d, "trace.ndjson")
    vlib.write_ndjson(trace, evs)
    r = vlib.tlc("TraceFoamCodec", "TraceFoamCodec", workers=1, env={"TRACE": trace}, timeout=900)
    chk.add_tlc("TraceFoamCodec", r)
    if r.violated:
        chk.violation("the recorded codec states violate %s of FoamCodec.tla" % r.violated, r.trace_text,
                      key={"model": "TraceFoamCodec", "inv": r.violated})
    summ = [json.loads(l[8:]) for l in r.printed if isinstance(l, str) and l.startswith("SUMMARY ")]
    if not summ or summ[0]["events"] != len(evs):
        raise vlib.MachineryError("TraceFoamCodec did not reach the end of the trace\n" + r.out[-2000:])
    bads = {}
    for l in r.printed:
        if isinstance(l, str) and l.startswith("BAD "):
            bad = json.loads(l[4:])
            ev = evs[bad["l"] - 1]
            if ev["ev"] == "Tags":
                raise vlib.MachineryError("FoamCodec.tla and the compiled foam.h disagree: " + bad["why"])
            # hazard: the format foamTagFormat is transcribed to choose does not fit the node (FoamCodec.tla: ChoiceOK fails)
            hz = bool(ev["case"]["asw"] not in ev["case"]["adm"])
            bads.setdefault((ev["node"]["tag"], bad["why"].split(":")[0], hz), []).append((bad, ev))
    for (tag, what, hz), lst in sorted(bads.items()):
        bad, ev = lst[0]
        chk.violation("FOAM byte codec, %s node: %s (%d nodes of the family, first: %s)" % (tag, bad["why"], len(lst), node_text(ev["node"])[:160]),
                      {"why": [x[0]["why"] for x in lst][:10], "nodes": [node_text(x[1]["node"])[:300] for x in lst[:10]],
                       "bytes": ev["bytes"][:200], "read_back": node_text(ev["back"])[:300], "fault": ev.get("fault")},
                      key={"codec": "foam", "tag": tag, "what": what, "transcribed_choice_fits": not hz})
    for c in cases:
        chk.case(("foamcodec", node_text(c["node"])[:120]), nontrivial=any(f != 1 for f in c["adm"]))
    chk.traces += len(cases)
    drift = [json.loads(l[6:]) for l in r.printed if isinstance(l, str) and l.startswith("DRIFT ")]
    chk.extra["foam_codec"] = {"nodes_replayed": len(cases), "rejected": sum(len(v) for v in bads.values()),
                               "encodings_differing_from_transcription": len(drift)}
    chk.sample({"foam_codec_case": node_text(cases[len(cases) // 2]["node"])[:200], "bytes": evs[len(cases) // 2 + 1]["bytes"][:40]})


def ao_section(data, name):
    import struct
    if len(data) < 165:
        return None
    numsect, = struct.unpack_from("<H", data, 10)
    for k in range(min(numsect, 17)):
        n, off, ln = struct.unpack_from("<BII", data, 12 + 9 * k)
        if n < len(SECT_NAMES) and SECT_NAMES[n] == name:
            return data[off:off + ln]
    return None


def type_sections(chk, b, libs, wd, need_leaves):
    """libs: [(name, bytes of an .ao)].  TLC reads every type section with the reader and skipper of SefoCodec.tla."""
    d = os.path.join(wd, "foamcodec")
    tags = json.loads(open(os.path.join(d, "tags.ndjson")).read())
    evs = [{"ev": "Tags", "ab": tags["ab"], "tf": tags["tf"], "tfclass": tags["tfclass"], "tfsymes": tags["tfsymes"]}]
    for name, data in libs:
        sec = ao_section(data, "type")
        if sec is None:
            raise vlib.MachineryError("no type section in %s" % name)
        evs.append({"ev": "Section", "lib": name, "bytes": list(sec)})
    trace = os.path.join(d, "sections.ndjson")
    vlib.write_ndjson(trace, evs)
    r = vlib.tlc("TraceSefoCodec", "TraceSefoCodec", workers=1, env={"TRACE": trace}, timeout=900)
    chk.add_tlc("TraceSefoCodec", r)
    if r.violated:
        chk.violation("a recorded type section violates %s of SefoCodec.tla" % r.violated, r.trace_text,
                      key={"model": "TraceSefoCodec", "inv": r.violated})
    summ = [json.loads(l[8:]) for l in r.printed if isinstance(l, str) and l.startswith("SUMMARY ")]
    if not summ or summ[0]["events"] != len(evs):
        raise vlib.MachineryError("TraceSefoCodec did not reach the end of the trace\n" + r.out[-2000:])
    seen = set()
    nbad = 0
    for l in r.printed:
        if isinstance(l, str) and l.startswith("BAD "):
            bad = json.loads(l[4:])
            ev = evs[bad["l"] - 1]
            if ev["ev"] == "Tags":
                raise vlib.MachineryError("SefoCodec.tla and the compiled absyn.h / tform.h disagree: " + bad["why"])
            nbad += 1
            chk.violation("type section of %s: %s" % (ev["lib"], bad["why"]), {"lib": ev["lib"], "why": bad["why"], "bytes": ev["bytes"][:400]},
                          key={"codec": "sefo", "what": bad["why"][:40]})
        elif isinstance(l, str) and l.startswith("LEAVES "):
            seen |= set(json.loads(l[7:])["leaves"])
    if not set(need_leaves) <= seen and nbad == 0 and not r.violated:
        raise vlib.MachineryError("type sections of the built libraries hold the leaf kinds %s only" % sorted(seen))
    chk.traces += len(libs)
    chk.extra["type_sections"] = {"validated": len(libs), "leaf_kinds": sorted(seen)}


def wide_family(chk, quick):
    """The units that drive indices and counts beyond one byte: abstract programs (expected output from AldorSem.tla) and
    text units (equality between arrangements only)."""
    n = 258 + (chk.seed % 5)
    # the 260-field record costs 16 s of type inference per compilation: thorough tier only (the last index of RElt beyond
    # 255 is then reached by the node family of the codec replay only; its first index by the unit `fmt')
    progs = [(k, wideunits.ABSTRACT[k](n, "wide_%s" % k)) for k in WIDE_ABSTRACT if not (quick and k == "rec")]
    texts = [(k, "wide_%s" % k, wideunits.TEXT[k](n)) for k in WIDE_TEXT]
    return n, progs, texts

# ------------------------------------------------------------------------------------------------------------------
def fault_sig(res):
    both = (res.get("out") or "") + (res.get("err") or "")
    m = re.search(r"Bug:[ \t]*(.*(?:\n.*)?)", both)
    if m:
        s = re.sub(r"\(line \d+ in file ([^)]*)\)\.?", r"in \1", m.group(1)).strip().split("\n")[0]
        s = re.sub(r"\d+", "N", s) if "foam reference" in s else s
        return "fault", "Bug: " + s[:80]
    if "Program fault" in both or (res.get("rc") is not None and res["rc"] < 0):
        return "fault", "Program fault" if "Program fault" in both else "signal %d" % -res["rc"]
    if res.get("timeout"):
        return "timeout", ""
    e = progcheck.first_error(both)
    return "compile-reject", e or "rc=%s" % res.get("rc")


def effective_out(res):
    out = res["out"]
    if res["phase"] == "interp":      # the interpreter's stack listing (it holds addresses) is printed whenever a run-time error is
        # raised, also when the program catches it and ends normally (corpus program bug702): a diagnostic, not output
        out = re.sub(r"^(#\d+ \S+ in <[^>]*> at unit \[[^\]]*\]|\.\.\.)\n", "", out, flags=re.M)
    return out


class Job(object):
    """One program with its trees (one per level) and the paths / splits to perform."""

    def __init__(self, b, wd, pid, text, exp, prog=None):
        self.b, self.pid, self.text, self.exp, self.prog = b, pid, text, exp, prog
        self.root = os.path.join(wd, pid)
        self.trees = {q: units.Tree(b, os.path.join(self.root, q), text, q) for q in LEVELS}
        self.paths = []
        self.splits = []
        self.movable = []
        self.split_results = []
        self.wide = None            # kind of wide unit (gen/wideunits.py)
        self.types = None           # type-expression shapes of a library + client program (gen/typeprogs.py)
        self.type_consts = False    # the library exports constants of those types as well

    def perform_level(self, q):
        t = self.trees[q]
        mine = [p for p in self.paths if p["level"] == q]
        for p in mine:
            f = t.final(p["chain"], p["final"])
            if not p["chain"] and not f["ok"]:
                t.dead = "the direct compilation (%s) failed" % p["final"]       # direct paths come first in self.paths
        return q

    def perform_split(self, k):
        s = self.splits[k]
        d = os.path.join(self.root, "split%d" % k)
        os.makedirs(d, exist_ok=True)
        libref = "plib.ao" if s["form"] == "ao" else "libplib.al"
        if self.types is not None:
            lib_text, client_text, _ = typeprogs.render(self.types, consts=self.type_consts)
            client_text = client_text % libref
            res = {"split": s, "dir": d, "lib_ok": False, "run": None, "lib_throws": False, "lib_funs": [typeprogs.text(t) for t in self.types]}
        else:
            moved = [self.movable[i - 1] for i in s["lib"]]
            libf = render.lib_closure(self.prog, [i for k, i in moved if k == "f"])
            libd = [i for k, i in moved if k == "d"]
            lib_text, client_text = render.render_split(self.prog, libf, libref=libref, lib_doms=libd, lib_exns=bool(self.prog.get("exns")))
            res = {"split": s, "dir": d, "lib_ok": False, "run": None, "lib_throws": any(render._throws(self.prog["funs"][i]["body"]) for i in libf),
                   "lib_funs": [self.prog["funs"][i]["name"] for i in libf] + [self.prog["doms"][i]["name"] for i in libd]}
        open(os.path.join(d, "plib.as"), "w").write(lib_text)
        open(os.path.join(d, "p.as"), "w").write(client_text)

        def aldor(args, timeout=units.Tree.TIMEOUT):
            rc, o, e, to = vlib.aldor(self.b, args, d, timeout=timeout)
            return {"rc": rc, "out": o.decode(errors="replace"), "err": e.decode(errors="replace"), "timeout": to, "cmd": " ".join(args), "dir": d}
        r = aldor(["-" + s["qlib"], "-Fao", "plib.as"])
        if r["rc"] != 0 or r["timeout"] or not os.path.isfile(os.path.join(d, "plib.ao")):
            res["run"] = dict(r, phase="compile")
            return res
        if s["route"] == "exe":
            # the library's C is generated from its saved form
            r = aldor(["-" + s["qlib"], "-laxllib", "-Fc", "plib.ao"])
            if r["rc"] != 0 or r["timeout"]:
                res["run"] = dict(r, phase="compile")
                return res
        if self.types is not None:
            res["lib_ao"] = open(os.path.join(d, "plib.ao"), "rb").read()
        if s["form"] == "al":
            rc, o, e, to = vlib.run(["ar", "cr", "libplib.al", "plib.ao"], cwd=d)
            if rc != 0:
                res["run"] = {"rc": rc, "out": o.decode(), "err": e.decode(), "timeout": to, "phase": "compile", "cmd": "ar", "dir": d}
                return res
            os.unlink(os.path.join(d, "plib.ao"))
        res["lib_ok"] = True
        if s["route"] == "run":
            r = aldor(["-" + s["qclient"], "-Ginterp", "p.as"], timeout=60)
            res["run"] = dict(r, phase="interp")
            return res
        r = aldor(["-" + s["qclient"], "-Fc", "-Fmain", "p.as"])
        if r["rc"] != 0 or r["timeout"]:
            res["run"] = dict(r, phase="compile")
            return res
        rc, o, e, to = vlib.link_c(self.b, d, ["p.c", "p-aldormain.c", "plib.c"], "p")
        if rc != 0 or to:
            res["run"] = {"rc": rc, "out": o.decode(errors="replace"), "err": e.decode(errors="replace"), "timeout": to, "phase": "link", "cmd": "gcc", "dir": d}
            return res
        rc, o, e, to = vlib.run(["./p"], cwd=d, timeout=60)
        res["run"] = {"rc": rc, "out": o.decode(errors="replace"), "err": e.decode(errors="replace"), "timeout": to, "phase": "run", "cmd": "./p", "dir": d}
        return res


def run_digest(res):
    return units.digest(effective_out(res) + "\n#exit " + ("0" if res["rc"] == 0 else "nz"))


def conforms(res, exp):
    if exp is None:      # corpus: no independent expectation; a fault is still not a behaviour
        kind, _ = fault_sig(res) if (res["rc"] is None or res["rc"] < 0 or "Bug:" in res["out"] + res["err"]
                                     or "Program fault" in res["out"] + res["err"] or res["timeout"]) else (None, None)
        return kind is None and res["phase"] in ("interp", "run")
    return progcheck.classify(res, exp) is None


# ------------------------------------------------------------------------------------------------------------------
def run(chk, tier):
    b = vlib.vbuild()
    wd = vlib.scratch("c05")
    rnd = random.Random(chk.seed)
    quick = tier == "quick"
    nprog = 9 if quick else 20
    nsplit = 7 if quick else 26
    ncorpus = 3 if quick else 8
    units.Tree.TIMEOUT = 25 if quick else 90
    # reading FOAM text is slow (about 1 s per 100 KB): the quick tier uses smaller programs
    progs = family(chk, nprog, sizes=(4, 6, 8) if quick else (6, 10, 16))
    wide_n, wide_progs, wide_texts = wide_family(chk, quick)

    def codecs():
        cases, fields, shapes = codec_models(chk, tier)
        foam_replay(chk, b, cases, wd)
        return fields, shapes
    with concurrent.futures.ThreadPoolExecutor(max_workers=4) as ex:
        fm_ = ex.submit(models, chk, tier)
        fc_ = ex.submit(codecs)
        # the wide units need many more steps of the abstract machine than the family's fuel (AldorSemWide.cfg)
        fw_ = ex.submit(progcheck.Family, chk, [p for _, p in wide_progs], "wide", cfg="AldorSemWide", workers=4, timeout=1500)
        fam = progcheck.Family(chk, progs, "gen", workers=max(4, vlib.NCPU - 8), timeout=1500)
        paths, splits = fm_.result()
        famw = fw_.result()
        need_fields, shapes = fc_.result()
    if len(famw.replayable) != len(wide_progs):
        raise vlib.MachineryError("AldorSem gave no final behaviour for the wide units %s" %
                                  [p["id"] for _, p in wide_progs if p not in famw.replayable])
    direct = [p for p in paths if not p["chain"]]
    indirect = [p for p in paths if p["chain"]]
    per_prog = 28 if quick else len(indirect)
    jobs = []
    for p in fam.replayable:
        jobs.append(Job(b, wd, p["id"], render.render(p), fam.exp[p["id"]], prog=p))
    for c in corpus(chk, b, ncorpus, wd):
        jobs.append(Job(b, wd, c["id"], c["text"], None))
    if len(jobs) < (nprog + ncorpus) // 2:
        raise vlib.MachineryError("only %d programs are replayable" % len(jobs))
    # units with wide indices / counts (class a) and library + client programs over the leaf kinds of type expressions (class b)
    for k, p in wide_progs:
        j = Job(b, wd, p["id"], render.render(p), famw.exp[p["id"]], prog=p)
        j.wide = k
        jobs.append(j)
    for k, pid, text in wide_texts:
        j = Job(b, wd, pid, text, None)
        j.wide = k
        jobs.append(j)
    # the unit with the long Integer literal makes the unchanged compiler allocate until memory is exhausted (open finding):
    # its commands run under an address-space limit, so that this takes seconds instead of minutes
    wrapper = os.path.join(wd, "aldor-limited")
    with open(wrapper, "w") as fh:
        fh.write("#!/bin/sh\nulimit -v 3000000\nexec %s \"$@\"\n" % b["aldor"])
    os.chmod(wrapper, 0o755)
    for j in jobs:
        if j.wide is not None:
            for t in j.trees.values():
                t.TIMEOUT = 150          # type inference of the 260-field record alone takes 10 s and more
                if j.wide == "bint":
                    t.b = dict(b, aldor=wrapper)
    order = list(shapes)
    rnd.shuffle(order)
    # A constant of the library that the client reads through an ARCHIVE member crashes the client (open finding): the
    # shapes with an identifier argument (the library constant kI) go into the groups whose library also exports constants
    # of the types, and those groups are split with the library as .ao only; the other groups use .ao and .al.
    with_id = [x for x in order if "id" in typeprogs.leaves(x)]
    without = [x for x in order if "id" not in typeprogs.leaves(x)]
    pad = len(with_id) % 6 and 6 - len(with_id) % 6
    with_id, without = with_id + without[:pad], without[pad:]
    groups_c = [with_id[i:i + 6] for i in range(0, len(with_id), 6)]
    groups_n = [without[i:i + 6] for i in range(0, len(without), 6)]
    if quick:
        groups_c, groups_n = groups_c[:2], groups_n[:2]
        rest = [x for x in without if not any(x in g for g in groups_n)]
        for kind in ("int", "flt", "str"):
            # TLC checks at the end of the trace that every leaf kind was performed; the deal has to provide for it
            if not any(kind in typeprogs.leaves(x) for g in groups_n for x in g):
                groups_n[0][-1] = [x for x in rest if kind in typeprogs.leaves(x)][0]
    for gi, (g, consts) in enumerate([(g, True) for g in groups_c] + [(g, False) for g in groups_n]):
        j = Job(b, wd, "types_%d" % gi, typeprogs.render(g, consts=consts)[2], None)
        j.types = g
        j.type_consts = consts
        jobs.append(j)
    # fixed: one type, its constant read by the client from an archive member (open finding, kept visible)
    j = Job(b, wd, "types_al_const", typeprogs.render([{"args": [{"leaf": "int", "v": 1}]}], consts=True)[2], None)
    j.types = [{"args": [{"leaf": "int", "v": 1}]}]
    j.type_consts = True
    jobs.append(j)

    # every path is performed at least once across the programs: deal a shuffled deck round-robin
    deck = list(indirect)
    rnd.shuffle(deck)
    sdeck = list(splits)
    rnd.shuffle(sdeck)
    pi = si = 0
    xunit = {p["id"]: funs for p, funs in cross_unit_programs()}
    wide_chains = [("ao",), ("ao", "al", "ao")]
    full3 = [sp for sp in sdeck if sp["lib"] == [1, 2, 3] and not (sp["qclient"] == "Q9" and sp["qlib"] in ("Q2", "Q9"))]
    ti = 0
    for j in jobs:
        chosen = {}
        if j.wide is not None:
            # through .ao and through an archive member: FOAM text and interpretation (thorough: C text and executable too)
            k = (WIDE_ABSTRACT + WIDE_TEXT).index(j.wide)
            lv = LEVELS if not quick else sorted(set(WIDE_FIXED_LEVEL.get(j.wide, []) +
                                                     ([] if j.wide in WIDE_ONLY_FIXED else [LEVELS[(chk.seed + k) % 3]])))
            if j.wide == "rec" and not quick:
                lv = ["Q0", "Q2"]        # type inference needs 10 s and more for the 260-field record
            fin = ("fm", "run") if quick else ("fm", "run", "c", "exe")
            chosen = {(p["level"], tuple(p["chain"]), p["final"]): p for p in indirect
                      if p["level"] in lv and tuple(p["chain"]) in wide_chains and p["final"] in fin
                      and not (tuple(p["chain"]) != ("ao",) and p["final"] != "fm")}
        elif j.pid == "types_al_const":
            j.splits = [{"lib": [1, 2, 3], "form": "al", "qlib": "Q2", "qclient": "Q2", "route": "run"}]
        elif j.types is not None:
            pool = [sp for sp in full3 if sp["form"] == "ao"] if j.type_consts else full3
            for _ in range(3 if quick else 8):
                j.splits.append(pool[ti % len(pool)])
                ti += 1
        for _ in range(0 if (j.wide is not None or j.types is not None) else min(6 if j.pid in xunit else per_prog, len(deck))):
            p = deck[pi % len(deck)]
            pi += 1
            chosen[(p["level"], tuple(p["chain"]), p["final"])] = p
        if j.pid == "wideall" or (j.pid == "widerand" and not quick):
            chosen = {(p["level"], tuple(p["chain"]), p["final"]): p for p in indirect if len(p["chain"]) <= (1 if quick else 4)}
        if j.pid in xunit:
            # fixed splits: everything movable in the library, library at -Q2 / client at -Q9 (cross-unit inlining) and -Q0 / -Q0
            j.movable = [("f", i) for i in xunit[j.pid]]
            lib = list(range(1, len(j.movable) + 1))
            j.splits = [{"lib": lib, "form": "ao", "qlib": ql, "qclient": qc, "route": r}
                        for (ql, qc) in (("Q2", "Q9"), ("Q0", "Q0")) for r in ("run", "exe")]
        elif j.prog is not None and j.wide is None:
            el = render.lib_eligible(j.prog, throwers=bool(j.prog.get("exns")))
            if len(el) >= 3:
                # the three movable definitions of Units.tla: top-level domains when the program has some, and functions
                own = [i for i in el if not j.prog["funs"][i]["name"].startswith(("x", "wf"))]
                rnd.shuffle(own)
                own.sort(key=lambda i: not render._throws(j.prog["funs"][i]["body"]))      # functions that throw first
                rest = [i for i in el if i not in own]
                rnd.shuffle(rest)
                doms = list(range(len(j.prog.get("doms", []))))
                rnd.shuffle(doms)
                nd = min(2, len(doms))
                j.movable = [("d", i) for i in sorted(doms[:nd])] + [("f", i) for i in sorted((own[:2] + rest)[:3 - nd])]
                for _ in range(nsplit):
                    j.splits.append(sdeck[si % len(sdeck)])
                    si += 1
        need = set((p["level"], p["final"]) for p in chosen.values())
        need |= set((p["level"], k) for p in chosen.values() for k in units.RUNS)        # both direct runs, see `broken` below
        need |= set((q, k) for s in j.splits for q in (s["qclient"], s["qlib"]) for k in units.RUNS)
        need |= set((q, "fm") for q in set(p["level"] for p in chosen.values()))       # the source's constants
        j.paths = [p for p in direct if (p["level"], p["final"]) in need] + \
            sorted(chosen.values(), key=lambda p: (p["level"], p["chain"], p["final"]))

    import time
    tm = {"setup": round(time.time() - chk.t0, 1)}
    if os.environ.get("VERIF_C05_TIMING"):
        print("setup", tm, file=sys.stderr, flush=True)
    t1 = time.time()
    # ---- perform ----
    with concurrent.futures.ThreadPoolExecutor(max_workers=vlib.NCPU) as ex:
        # the wide units first: their commands are the longest (the 260-field record needs 10 s and more per command)
        first = [j for j in jobs if j.wide == "rec"] + [j for j in jobs if j.wide is not None and j.wide != "rec"]       # rec: thorough only
        futs = [ex.submit(j.perform_level, q) for j in first + [j for j in jobs if j.wide is None] for q in LEVELS]
        sfuts = [(j, k, ex.submit(j.perform_split, k)) for j in jobs for k in range(len(j.splits))]
        for f in futs:
            f.result()
        for j, k, f in sfuts:
            j.split_results.append(f.result())

    tm["perform"] = round(time.time() - t1, 1)
    if os.environ.get("VERIF_C05_TIMING"):
        print("perform", tm, sorted((x + (j.pid,) for j in jobs for t in j.trees.values() for x in t.slow), reverse=True)[:8], file=sys.stderr, flush=True)
    t1 = time.time()
    # ---- read the generated texts; every re-expressed constant goes to TLC ----
    forms = {}
    exprs, consts = [], []
    for j in jobs:
        for p in j.paths:
            if p["final"] in units.TEXTS:
                f = j.trees[p["level"]].final(p["chain"], p["final"])
                if f["ok"]:
                    tf = units.TextForm(p["final"], open(f["file"], "rb").read())
                    forms[(j.pid, p["level"], tuple(p["chain"]), p["final"])] = tf
                    exprs += tf.exprs()
                    if not p["chain"]:
                        consts += tf.constants()
    # the transcribed algorithm is also evaluated by TLC on seeded random 64-bit constants (Eval(Reduce(c)) = c)
    extra_consts = [rnd.getrandbits(64) - 2**63 for _ in range(200 if quick else 4000)]
    values, reduced, badc = units.tlc_reduce_eval(chk, exprs, [c for c in consts if abs(c) >= 2**31 - 1 or c == -2**31] + extra_consts)
    for c in extra_consts:
        reduced.pop(c, None)
    for c in badc:
        chk.violation("SIntReduce.tla: Eval(Reduce(%d)) differs from the constant" % c, {"constant": c},
                      key={"model": "SIntReduce", "constant": str(c)})
    predicted = set(json.dumps(t, sort_keys=True) for t in reduced.values() if t)
    seen_shapes = set(json.dumps(e, sort_keys=True) for e in exprs)

    tm["read+reduce"] = round(time.time() - t1, 1)
    t1 = time.time()
    # ---- a (program, level) whose *direct* compilation already fails or misbehaves is outside this property (C01/C02/C03) ----
    broken = {}
    for j in jobs:
        for q in LEVELS:
            dp = [p for p in j.paths if not p["chain"] and p["level"] == q]
            if not dp:
                continue
            t = j.trees[q]
            for p in dp:
                f = t.final((), p["final"])
                if not f["ok"]:
                    broken.setdefault((j.pid, q), (p["final"],) + fault_sig(f["res"]))
                elif p["final"] == "exe" and f["run"]["phase"] in ("compile", "link"):
                    broken.setdefault((j.pid, q), ("exe",) + fault_sig(f["run"]))
            # a wrong behaviour that the interpreter and the executable share comes from the front or middle end (C01/C02);
            # one that only one of them shows is route-specific and stays in the trace (the interpreter loads the unit's
            # flat FOAM, i.e. goes through the saved form)
            rr = [t.final((), k) for k in units.RUNS if any(p["final"] == k for p in dp)]
            if (j.pid, q) not in broken and len(rr) == 2 and all(f["ok"] for f in rr) and \
                    not any(conforms(f["run"], j.exp) for f in rr) and run_digest(rr[0]["run"]) == run_digest(rr[1]["run"]):
                c = progcheck.classify(rr[0]["run"], j.exp) if j.exp is not None else None
                broken[(j.pid, q)] = ("run+exe",) + tuple(c or fault_sig(rr[0]["run"]))
    for j in jobs:
        j.paths = [p for p in j.paths if (j.pid, p["level"]) not in broken]
        keep = [k for k, s in enumerate(j.splits) if (j.pid, s["qclient"]) not in broken and (j.pid, s["qlib"]) not in broken]
        j.splits = [j.splits[k] for k in keep]
        j.split_results = [j.split_results[k] for k in keep]
    chk.extra["direct_failures"] = [{"program": k[0], "level": k[1], "final": v[0], "kind": v[1], "sig": v[2]} for k, v in sorted(broken.items())][:20]
    chk.extra["direct_failures_count"] = len(broken)
    # (when the codec replay has already shown a violation the wreckage is its consequence: carry on and report)
    if len(broken) > len(jobs) * len(LEVELS) // 3 and not chk.violations:
        raise vlib.MachineryError("%d of %d (program, level) pairs fail without any saved form: %s" % (len(broken), len(jobs) * 3, sorted(broken.items())[:3]))
    huge = {}
    for (pid, level, chain, kind), tf in forms.items():
        if not chain and kind == "fm":
            huge[(pid, level)] = any(abs(c) >= 2**62 for c in tf.constants())

    # ---- the trace ----
    events, info = [], []

    def emit(e, rec):
        events.append(e)
        info.append(rec)
    zero = [0, 0, 0, 0]
    nperf = 0
    # what TLC enumerated as to be reached (FoamCodec.tla FIELD lines, leaf kinds of SefoCodec.tla); TraceUnits prints a GAP
    # line for each one the performed paths / splits did not reach
    emit({"ev": "Need", "fields": need_fields, "leaves": ["id", "int", "flt", "str"]}, None)
    reached = {}
    for j in jobs:
        for p in j.paths:
            t = j.trees[p["level"]]
            chain = tuple(p["chain"])
            rec = {"job": j, "path": p}
            emit({"ev": "Begin", "prog": j.pid, "level": p["level"]}, rec)
            if j.wide is not None and chain:
                if (j.pid, p["level"]) not in reached:
                    dtf = forms.get((j.pid, p["level"], (), "fm"))
                    m = wideunits.measure(dtf.tree) if dtf is not None and dtf.tree is not None else {}
                    reached[(j.pid, p["level"])] = [{"field": k, "max": v} for k, v in sorted(m.items())]
                emit({"ev": "Reach", "fields": reached[(j.pid, p["level"])]}, rec)
            failed = False
            for i in range(len(chain)):
                n = t.node(chain[:i + 1])
                raw = t.member_bytes(chain[:i + 1]) if n["ok"] else None
                emit({"ev": "Step", "to": chain[i], "ok": bool(n["ok"] and raw is not None),
                      "raw": units.digest(raw) if raw is not None else zero}, dict(rec, res=n.get("res"), step=i))
                if not n["ok"]:
                    failed = True
                    break
            if failed:
                continue
            nperf += 1
            f = t.final(chain, p["final"])
            e = {"ev": "Final", "to": p["final"], "ok": bool(f["ok"]), "nb": zero, "nt": zero, "subst": 0, "od": zero, "conf": True}
            r2 = dict(rec, res=f.get("res"))
            if f["ok"] and p["final"] in units.TEXTS:
                tf = forms[(j.pid, p["level"], chain, p["final"])]
                tok, ns = tf.token_form(values)
                e.update(nb=units.digest(tf.named), nt=units.digest(tok), subst=ns)
                r2.update(form=tf, tok=tok)
            elif f["ok"]:
                e.update(od=run_digest(f["run"]), conf=bool(conforms(f["run"], j.exp)))
                r2.update(res=f["run"])
            emit(e, r2)
            chk.case((j.pid, p["level"], ">".join(chain), p["final"]), nontrivial=bool(chain))
        for k, sr in enumerate(j.split_results):
            s = sr["split"]
            rec = {"job": j, "splitres": sr, "res": sr["run"]}
            emit({"ev": "Begin", "prog": j.pid, "level": s["qclient"]}, rec)
            se = {"ev": "Split", "lib": s["lib"], "form": s["form"], "qlib": s["qlib"], "ok": bool(sr["lib_ok"])}
            if j.types is not None:
                se["leaves"] = sorted(set().union(*[typeprogs.leaves(x) for x in j.types]))
            emit(se, rec)
            if sr["lib_ok"]:
                nperf += 1
                emit({"ev": "LinkRun", "route": s["route"], "ok": True, "od": run_digest(sr["run"]),
                      "conf": bool(conforms(sr["run"], j.exp))}, rec)
            chk.case((j.pid, "split", json.dumps(s, sort_keys=True)), nontrivial=True)
    chk.traces += nperf

    tm["digests"] = round(time.time() - t1, 1)
    chk.extra["phase_s"] = tm
    trace = os.path.join(wd, "units.ndjson")
    vlib.write_ndjson(trace, events)
    hook = os.environ.get("VERIF_C05_CORRUPT")          # self-test: corrupt one recorded field (see SELFTEST_NOTES)
    if hook and hook != "codec":
        corrupt_trace(trace, hook)
    if os.environ.get("VERIF_C05_KEEP"):          # development aid: keep the recorded trace
        shutil.copy(trace, os.environ["VERIF_C05_KEEP"])
    # ---- the type section of every library built for the type-expression programs, read by TLC (meanwhile) ----
    libs, seen_secs = [], set()
    for j in jobs:
        if j.types is not None:
            for k, sr in enumerate(j.split_results):
                sec = ao_section(sr["lib_ao"], "type") if sr.get("lib_ao") else None
                if sec is not None and sec not in seen_secs:
                    seen_secs.add(sec)
                    libs.append(("%s/split%d/plib.ao" % (j.pid, k), sr["lib_ao"]))
    # quick: one library with constants and identifier arguments, two without (all leaf kinds between them)
    libs.sort(key=lambda x: (not x[0].startswith("types_0/"), x[0]))
    tsec = concurrent.futures.ThreadPoolExecutor(max_workers=1)
    fsec = tsec.submit(type_sections, chk, b, libs[:3 if quick else 40], wd, ["id", "int", "flt", "str"]) if libs else None
    r = vlib.tlc("TraceUnits", "TraceUnits", workers=1, env={"TRACE": trace}, timeout=900)
    chk.add_tlc("TraceUnits", r)
    if r.violated:
        chk.violation("trace of performed paths violates Units invariant %s" % r.violated, r.trace_text,
                      key={"model": "TraceUnits", "inv": r.violated})
    summary = [json.loads(l[8:]) for l in r.printed if isinstance(l, str) and l.startswith("SUMMARY ")]
    if not summary or summary[0]["events"] != len(events):
        raise vlib.MachineryError("TraceUnits did not reach the end of the trace\n" + r.out[-2000:])
    bads = [json.loads(l[4:]) for l in r.printed if isinstance(l, str) and l.startswith("BAD ")]
    for bad in bads:
        report(chk, bad, events[bad["l"] - 1], info[bad["l"] - 1], forms, values, huge)
    gaps = [json.loads(l[4:]) for l in r.printed if isinstance(l, str) and l.startswith("GAP ")]
    chk.extra["wide_units"] = {"items": wide_n, "kinds": WIDE_ABSTRACT + WIDE_TEXT,
                               "reached": {"%s@%s" % k: {x["field"]: x["max"] for x in v if x["max"] > 255} for k, v in sorted(reached.items())}}
    if gaps and not chk.violations:      # (with violations the missing witnesses are wreckage: programs that failed were set aside)
        raise vlib.MachineryError("the performed units / splits do not reach what the codec specifications enumerate: %s" % gaps[:8])
    if fsec is not None:
        fsec.result()
    tsec.shutdown()
    chk.extra["type_programs"] = {"groups": len([j for j in jobs if j.types is not None]),
                                  "shapes_in_model": len(shapes), "shapes_performed": sum(len(j.types) for j in jobs if j.types is not None)}

    # ---- evidence ----
    drift = []
    for (pid, level, chain, kind), tf in forms.items():
        if chain:
            n = len(tf.exprs())
            pth = [p for p in indirect if p["level"] == level and tuple(p["chain"]) == chain and p["final"] == kind][0]
            m = units.HEADER[kind].search(tf.raw) if kind in units.HEADER else None
            name = re.search(rb'"[^"]*\.([a-z]+)"', m.group(0)).group(1).decode() if m else "none"
            if (n > 0 and pth["wide"] != "red") or name != pth["name"]:
                drift.append({"program": pid, "level": level, "chain": list(chain), "final": kind, "predicted": [pth["name"], pth["wide"]],
                              "observed": [name, "red" if n else "lit?"]})
    chk.extra["drift"] = drift[:10]
    chk.extra["drift_count"] = len(drift)
    chk.extra["paths_in_model"] = len(paths)
    chk.extra["splits_in_model"] = len(splits)
    chk.extra["distinct_paths_performed"] = len(set((p["level"], tuple(p["chain"]), p["final"]) for j in jobs for p in j.paths))
    chk.extra["distinct_splits_performed"] = len(set(json.dumps(s, sort_keys=True) for j in jobs for s in j.splits))
    chk.extra["programs"] = len(jobs)
    chk.extra["programs_generated"] = len([j for j in jobs if j.prog is not None])
    chk.extra["programs_corpus"] = [j.pid for j in jobs if j.prog is None]
    chk.extra["programs_by_status"] = fam.status_count
    chk.extra["compiler_commands"] = sum(t.ncmd for j in jobs for t in j.trees.values())
    chk.extra["trace_events"] = len(events)
    chk.extra["slowest_commands"] = sorted((x + (j.pid,) for j in jobs for t in j.trees.values() for x in t.slow), reverse=True)[:5]
    chk.extra["timeouts_retried"] = sum(t.retries for j in jobs for t in j.trees.values())
    chk.extra["rejected_events"] = len(bads)
    chk.extra["reexpressed_constants"] = {"expressions_found": len(exprs), "distinct": len(seen_shapes),
                                          "wide_constants_in_direct_foam": len([c for c in reduced if reduced[c]]),
                                          "transcription_predicts_shape_not_seen": len(predicted - seen_shapes),
                                          "shape_seen_not_predicted": len(seen_shapes - predicted)}
    for k in sorted(values)[:2]:
        chk.sample({"reexpression": json.loads(k), "value_by_TLC": values[k]})
    chk.sample({"path": indirect[len(indirect) // 2]})
    chk.sample({"split": splits[len(splits) // 3]})
    if fam.replayable:
        p0 = fam.replayable[min(1, len(fam.replayable) - 1)]
        chk.sample({"program": render.render(p0)[:1500], "expected_out": fam.exp[p0["id"]]["out"][:300]})
    chk.rule = ("paths exported by TLC from Units.tla (chain of <= 4 saved forms x level x final kind), dealt round-robin over generated "
                "programs with extreme constants + corpus programs so that every path is performed; splits exported by TLC (subset of 3 "
                "movable definitions x ao/al x levels x route); a case is (program, level, chain, final) or (program, split); "
                "non-trivial = goes through at least one saved form.  Codec classes: the node family of FoamCodec.tla (field kind x "
                "boundary value; a case per node, non-trivial = a format other than one byte is admissible); 12 kinds of units (quick: 11, without the 260-field record) "
                "with 258..262 items reaching every field kind TLC lists (Need / Reach / GAP accounting in TraceUnits.tla); "
                "type-expression shapes exported by SefoCodec.tla dealt into library + client programs")
    chk.exhaustive = not quick
    chk.assumptions += ["reload commands repeat the -Q option of the compilation and add -laxllib",
                        "a re-saved .fm gets another file name (the driver refuses to overwrite its input) and is compared byte-wise",
                        "only order-independent programs are replayed (operand order undefined)",
                        "text comparison is byte-wise after the file-name line when the saved form's text holds no re-expressed constant, "
                        "token-wise (layout-insensitive) otherwise, because the pretty-printer breaks lines differently around the longer expression"]


def report(chk, bad, ev, rec, direct_forms, values, huge):
    j = rec["job"]
    why = bad["why"]
    what = why.split(":")[0].replace(" ", "-")
    res = rec.get("res")
    key = {"what": what, "program_kind": "wide" if j.wide else "types" if j.types is not None else "generated" if j.prog is not None else "corpus"}
    if j.wide:
        key["wide"] = j.wide
    if j.types is not None:
        key["lib_consts"] = bool(j.type_consts)
    detail = {"event": ev, "why": why, "program_id": j.pid, "source": j.text[:30000]}
    if "path" in rec and "splitres" not in rec:
        p = rec["path"]
        chain = list(p["chain"])
        key.update(final=p["final"], via_fm="fm" in chain, chain=">".join(chain), level=p["level"],
                   huge_sint=bool(huge.get((j.pid, p["level"]))))
        if ev["ev"] == "Step":
            key.update(failed_step="%s>%s" % ((["src"] + chain)[rec["step"]], chain[rec["step"]]))
        detail.update(path=p, commands=[s for s in p["steps"]])
        if "form" in rec:
            d = direct_forms.get((j.pid, p["level"], (), p["final"]))
            if d is not None:
                a = d.named.decode("latin-1") if ev["subst"] == 0 else d.token_form(values)[0]
                bb = rec["form"].named.decode("latin-1") if ev["subst"] == 0 else rec["tok"]
                detail["first_difference"] = units.first_diff(a, bb)
                key["sig"] = units.diff_class(d.token_form(values)[0], rec["tok"])
        if ev["ev"] == "Step" and why.startswith("identity") and p["chain"][rec["step"]] == "fm":
            t = j.trees[p["level"]]
            before, after = t.member_bytes(chain[:rec["step"]]), t.member_bytes(chain[:rec["step"] + 1])
            if before is not None and after is not None:
                ta, tb = units.TextForm("fm", before), units.TextForm("fm", after)
                key["sig"] = units.diff_class(ta.token_form({})[0], tb.token_form({})[0])
                detail["first_difference"] = units.first_diff(before.decode("latin-1"), after.decode("latin-1"))
    else:
        s = rec["splitres"]["split"]
        # cross_inline: the levels at which the client inlines code of the library unit (client -Q3 or more, library -Q2 or more)
        key.update(split_form=s["form"], route=s["route"], qlib=s["qlib"], qclient=s["qclient"],
                   cross_inline=(s["qclient"] == "Q9" and s["qlib"] in ("Q2", "Q9")), lib_throws=bool(rec["splitres"].get("lib_throws")))
        detail.update(split=s, lib_funs=rec["splitres"]["lib_funs"])
        if j.types is not None:
            lt, ct, _ = typeprogs.render(j.types, consts=j.type_consts)
            detail.update(library=lt[:20000], client=(ct % ("plib.ao" if s["form"] == "ao" else "libplib.al"))[:20000])
    if res is not None:
        if ev["ev"] in ("Final", "LinkRun") and ev.get("ok") and res.get("phase"):
            c = progcheck.classify(res, j.exp) if j.exp is not None else None
            kind, sig = c if c else fault_sig(res) if (res["rc"] != 0) else ("differs", "")
            if kind == "fault" and "Bug:" in res["out"] + res["err"]:
                kind, sig = fault_sig(res)
        else:
            kind, sig = fault_sig(res)
        key.update(kind=kind, sig=sig)
        detail.update(cmd=res.get("cmd"), rc=res.get("rc"), got_out=(res.get("out") or "")[:3000], got_err=(res.get("err") or "")[:2000],
                      expected_out=(j.exp or {}).get("out", "")[:3000])
    chk.violation("%s: program %s %s" % (why, j.pid, json.dumps({k: v for k, v in key.items() if k not in ("what",)}, sort_keys=True)),
                  detail, key=key)


def corrupt_trace(path, how):
    """Self-test hook: VERIF_C05_CORRUPT=raw|nt|od|step changes one recorded field of one event."""
    evs = [json.loads(l) for l in open(path)]
    done = False
    for i, e in enumerate(evs):
        prev_chain = i > 0 and evs[i - 1]["ev"] == "Step"
        if how == "raw" and e["ev"] == "Step" and e["to"] == "fm" and prev_chain and evs[i - 1]["to"] == "fm" and e["ok"]:
            e["raw"][0] ^= 1
            done = True
        elif how == "nt" and e["ev"] == "Final" and e["to"] in ("c", "lsp", "fm") and prev_chain and e["ok"]:
            e["nt"][1] ^= 1
            e["nb"][1] ^= 1
            done = True
        elif how == "od" and e["ev"] == "Final" and e["to"] in ("run", "exe") and prev_chain and e["ok"]:
            e["od"][2] ^= 1
            done = True
        elif how == "step" and e["ev"] == "Step" and e["to"] == "al" and prev_chain and evs[i - 1]["to"] == "ao":
            e["to"] = "ao"          # ao -> ao is not a step of Units
            done = True
        if done:
            break
    if not done:
        raise vlib.MachineryError("corrupt_trace: no event to corrupt for %s" % how)
    vlib.write_ndjson(path, evs)


def replay(d):
    """bin/verif replay C05 <file>: perform the recorded path again with the compiler built from the working tree and show
    the commands, their outcome and the first difference (informational; the verdict is the check's)."""
    det = d.get("detail") or {}
    if "path" not in det or "source" not in det:
        return 0
    b = vlib.vbuild()
    wd = vlib.scratch("c05replay")
    p = det["path"]
    t = units.Tree(b, wd, det["source"], p["level"])
    chain = tuple(p["chain"])
    for i in range(len(chain)):
        n = t.node(chain[:i + 1])
        print("step %s -> %s: %s" % ((("src",) + chain)[i], chain[i], "ok" if n["ok"] else "FAILED"))
        if not n["ok"]:
            print((n["res"] or {}).get("cmd"), "\n", ((n["res"] or {}).get("out") or "")[:2000])
            return 0
    f = t.final(chain, p["final"])
    g = t.final((), p["final"])
    print("final %s: %s (direct: %s)" % (p["final"], "ok" if f["ok"] else "FAILED", "ok" if g["ok"] else "FAILED"))
    for name, x in (("saved", f), ("direct", g)):
        r = x.get("run") or x.get("res")
        if r:
            print("--", name, r.get("cmd"), "rc=%s" % r.get("rc"), "\n", (r.get("out") or "")[:1500], (r.get("err") or "")[:500])
    if f["ok"] and g["ok"] and p["final"] in units.TEXTS:
        a = units.TextForm(p["final"], open(g["file"], "rb").read())
        c = units.TextForm(p["final"], open(f["file"], "rb").read())
        print("bytes equal after the file-name line:", a.named == c.named, " re-expressed constants in the saved form's text:", len(c.exprs()))
        print(json.dumps(units.first_diff(a.named.decode("latin-1"), c.named.decode("latin-1")), indent=1))
    return 0


SELFTEST_NOTES = """
Binding demonstration (2026-10-04; each mutation in a scratch worktree of /repo, `VERIF_SRC=<wt>/aldor/aldor/src bin/verif check C05
--tier quick`, worktree removed afterwards).  All caught with VIOLATION lines, exit 1:

 M1 foam.c foamSIntReduce   `parts[i] = number & 0x7fffffff` -> `& 0x7ffffffe`
      commute c/fm/lsp (value TLC computes for the re-expression differs from the source's constant), run/exe from .ao print wrong
      numbers, split program differs; also "the directly compiled program does not conform" for -Ginterp (it loads the flat FOAM).
 M2 foam.c foamSIntReduce   final `if (negative)` -> `if (0)` (Negate dropped)                        same classes as M1.
 M3 foam.c foamToBuffer     `bufPutByte(buf,bint->isNeg)` -> `bufPutByte(buf,0)` (sign of big integers lost in the .ao)
      commute c/fm/lsp from .ao ("tokens-differ"), run/exe from .ao wrong-output, split wrong-output.
 M4 sexpr.c string writer   backslash no longer escaped (`*str == '"' || *str == '\\'` -> `*str == '"'`)
      commute lsp via .fm (strings of the extreme-constant family hold backslashes).
 M5 lib.c libPutSymev       type hash code of exported symbols written as `symeTypeCode(syme) ^ 2`
      every split fails: client cannot use the library ("Bug: libSymeTypeNo: cannot find ...", "axlcat.ao is newer than ...").
 (first attempt of M1/M2 ended in MACHINERY-ERROR "23 of 45 (program, level) pairs fail without any saved form": the check then
  skipped every program whose direct run was wrong; the rule was narrowed: only a wrong behaviour shared by interpreter AND
  executable, or a failing direct compilation, puts a (program, level) aside -- recorded in coverage.direct_failures.)

Model-level (scratch copies of spec/SIntReduce.tla): dropping the final NegE, or splitting c instead of |c|, violates Theorem in
SIntReduce8 and SIntReduce64; Hunks without the rounding-up term makes TLC fail on c = 2^(W-2) (index 0 = the C text's parts[-1]);
a logical instead of the arithmetic shift and an unwrapped ShiftUp are NOT distinguishable (for c = -2^(W-1) both give the right
value: only the bits that stay in the word matter) -- so the C text's reliance on signed >> is harmless.  TLC coverage of the
Units.tla actions Save/Observe/Split/LinkRun is required to be non-zero.

Corrupted record (VERIF_C05_CORRUPT=<how> changes one field of one event of the recorded trace before TraceUnits reads it):
   raw  (digest of a re-saved .fm)      -> BAD "identity: Resave changed the bytes"           -> VIOLATION
   nt   (digest of a text from .ao)     -> BAD "commute: text from the saved form differs"    -> VIOLATION
   od   (digest of a run's output)      -> BAD "behaviour: the run differs from the direct run" -> VIOLATION
   step (Archive step renamed ao -> ao) -> BAD "illegal step" (not a step of Units.tla)       -> VIOLATION

Later round (after the two .fm fixes 8d362cd / 2dd3156 were committed): programs with exceptions are split too (throwers and the
exception declarations in the library unit, catchers in the client; render_split(lib_exns=True)), two fixed programs keep the
cross-unit inlining findings visible, and the seeded change /tmp/seeded/C03-1 (fint.c restores the tape of the wrong unit on
catch) is caught: `bin/seedtest /tmp/seeded/C03-1/patch.diff C05` -> exit 1, 5 VIOLATIONs, all on route run (interpreter) of
splits whose library throws.  Seeds 5, 20261004, 31337 on /repo: exit 0 with the same two KNOWN-FINDING lines.

Earlier: unchanged tree held with KNOWN-FINDING lines (seeds 20261004, 12345); with hooks/fix-C05-fm-gdecl-rtype.diff and
hooks/fix-C05-fm-wide-sint.diff applied to a worktree it holds without any (seeds 20261004, 777).

Strengthening round (2026-10-04, codec classes).  Reviewers' changes (bin/seedtest <patch> C05, quick tier):
  /tmp/seeded/C05-1 (foamTagFormat tests ng2 instead of ng1: indices 256..65535 of Lex/RElt/EElt/.. written as one byte)
      was missed, now caught twice: TraceFoamCodec rejects the bytes of 137 Lex / RElt / IRElt / TRElt / EElt nodes of the family
      ("denotes: the bytes written do not decode to the node", "readers: the tree reader returns another node"), and the wide
      units glo / rec (FOAM from .ao differs, run from .ao and -Ginterp print other numbers); 20 VIOLATION lines.
  /tmp/seeded/C05-3 (sefoFrBuffer0 forgets AB_LitFloat) was missed, now caught by the library + client programs whose exported
      types hold a float literal (client compilation faults; 12 VIOLATION lines, .ao and .al, run and exe).
  /tmp/seeded/C05-2 (foamSIntReduce drops a shift) still caught by the SIntReduce part.
Mutations of this round (scratch worktrees, VERIF_SRC=...):
  MA sefo.c sefoToBuffer writes a string literal before its syme number (reader / skipper unchanged)
      -> VIOLATION x14: every library + client program faults in the client (12), and TraceSefoCodec on the real type
         sections: "the skipping reader does not arrive at the end of the section" (2).
  MB foam.c foamFrBuffer0 reads a label (`L') in the node's format instead of labelFmt
      -> VIOLATION: TraceFoamCodec "Unit node: fault in the skipping-reader" (foamConstvFrBuffer asserts on the units whose
         programs have labels); the compiler is then so broken that half of the (program, level) pairs fail directly --
         the machinery errors "pairs fail without any saved form" / "do not reach what the codec specifications enumerate"
         are raised only when no violation has been recorded before (first attempt: exit 2 instead of 1).
Model level: SefoCodecSharp.cfg (skipper without float literals) violates IndexOK; FoamCodecAsWritten.cfg (no exemptions)
violates ChoiceOK on TR / Prog / BInt -- the latter two are real: the replay of the node family into foam.c found that
foamToBuffer truncates the `format' field of a Prog and the place count of a BInt (known_findings.jsonl, candidate patches
hooks/fix-C05-prog-format-width.diff, -bint-place-count-width.diff); the wide units found that the interpreter keeps DEnv
format numbers in bytes (candidate-C05-fint-denv-format-byte.diff) and the type programs that a library constant read through
an archive crashes the client.  With the three candidate patches applied (worktree) the check holds with the cross-unit
inlining and the archive-constant KNOWN-FINDING lines only.
VERIF_C05_CORRUPT=codec flips one bit of one recorded encoding -> TraceFoamCodec BAD "denotes" -> VIOLATION.
Pitfalls: `-coverage 1' makes TLC 100 times slower on FoamCodec / SefoCodec (recursive readers): not used there; the run-through
of the machines is checked by diameter and state count instead.  A LET definition is evaluated again at every use: the trace
specifications bind Index(bytes) / Decode(bytes) with \E x \in {e} (TraceSefoCodec: 120 s -> 3 s).  The interpreter has 3000 stack
slots per frame: the unit `loc' keeps its function below that.  The unit with the long Integer literal runs under `ulimit -v'
(the unchanged compiler allocates until memory is exhausted).  Quick tier at machine load 60: 180 s wall, 450 CPU-s (before this
round: 250 CPU-s); thorough 35 min at load 60..170.
"""
