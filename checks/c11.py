"""C11 -- Big-integer arithmetic is exact.

Decided by TLC in three ways (DESIGN.md section 5 C11):
  (A) spec/BigIntImpl.tla: the algorithms of bigint.c as written (digit vectors in radix R,
      immediate/allocated switch, carry chains, schoolbook product, Knuth D with q-hat
      estimate / correction / add-back, normalisation) refine the mathematical integers,
      exhaustively for R = 4 and R = 8 over operands of up to 3-4 digits;
      spec/BigZCheck.tla guards the oracle BigZ.tla against TLC's native integers.
  (B) the per-path operand patterns exported from BigIntImpl are instantiated at the real radices
      and executed (path labels are drift-only).
  (C) spec/TraceBigInt.tla validates traces recorded from the repository's bigint.c / foam_i.c by
      harness/bigint_drv.c, built twice: production radix 2^32 and -DBIGINT_DO_DEBUG (radix 2^7).
Python generates inputs, runs processes and counts; every verdict is a TLC computation.
"""
import collections
import concurrent.futures
import json
import os
import subprocess
import time

import vlib
from gen import bigint_ops

META = {
    "title": "Big-integer arithmetic is exact",
    "level": "model_checking",
    "technique": "TLC: BigIntImpl refines BigZ (exhaustive, R=4,8); trace validation of the real bigint.c at radix 2^32 and 2^7 against BigZ with division/gcd certificates",
    "design_ref": "DESIGN.md §5 C11, §3.2, §3.3, Appendix A",
    "level_text": "explicit-state model checking of the algorithm model within small-radix bounds; conformance of the real code by TLC-validated traces over the operand families of the property",
    "level_note": "exhaustive only for the model (R=4/8, <=4 digits); the real code is covered on the enumerated operand families and seeded random values, not for all integers",
}

HARNESS = os.path.join(vlib.VERIF, "harness", "bigint_drv.c")
NPROC = max(2, min(10, vlib.NCPU - 4))

FIELDS_Z = ("a", "b", "c", "e", "v")


def build_harnesses(b):
    h32 = vlib.harness_build("bigint32", [HARNESS], b, defines=("DRV_LG=32",))
    h7 = vlib.harness_build("bigint7", [HARNESS, os.path.join(vlib.SRC, "bigint.c")], b,
                            defines=("DRV_LG=7", "BIGINT_DO_DEBUG"))
    return {32: h32, 7: h7}


def run_harness(exe, lines, rx, wdir, tag, per_line_timeout=60):
    """Run the driver over the work list; restart after a fault/hang so that one bad operation
    does not hide the rest.  Returns the path of the ndjson trace (one event per line of work)."""
    wl = os.path.join(wdir, "wl-%s.txt" % tag)
    out = os.path.join(wdir, "tr-%s.ndjson" % tag)
    with open(wl, "w") as fh:
        fh.write("\n".join(lines) + "\n")
    if os.path.exists(out):
        os.unlink(out)
    first = 1
    restarts = 0
    while first <= len(lines):
        budget = 120 + per_line_timeout
        try:
            p = subprocess.run([exe, wl, out, str(first)], stdout=subprocess.DEVNULL, stderr=subprocess.PIPE,
                               timeout=max(budget, len(lines) // 200))
            rc = p.returncode
        except subprocess.TimeoutExpired:
            rc = "timeout"
        if rc == 0:
            break
        restarts += 1
        if restarts > 200:
            raise vlib.MachineryError("bigint_drv keeps dying (%s)" % tag)
        # which line was in progress?  the last complete event tells
        done = first - 1
        last = None
        with open(out, "rb") as fh:
            data = fh.read()
        good = data[:data.rfind(b"\n") + 1] if b"\n" in data else b""
        evs = [l for l in good.split(b"\n") if l.strip()]
        if evs:
            try:
                last = json.loads(evs[-1].decode())
            except ValueError:
                last = None
        if rc == 70 and last and last.get("ev") == "Fault":
            done = last["ln"]
            with open(out, "wb") as fh:
                fh.write(b"\n".join(evs) + b"\n")
        elif rc == "timeout" or (isinstance(rc, int) and rc < 0):
            n_ok = last["ln"] if last else first - 1
            done = n_ok + 1
            op = lines[done - 1].split()[0] if done <= len(lines) else "?"
            ev = {"ev": "Hang" if rc == "timeout" else "Fault", "op": op, "ln": done, "rx": rx, "signal": 0 if rc == "timeout" else -rc}
            with open(out, "wb") as fh:
                fh.write(b"\n".join(evs + [json.dumps(ev).encode()]) + b"\n")
        else:
            raise vlib.MachineryError("bigint_drv failed rc=%s: %s" % (rc, p.stderr.decode(errors="replace")[-500:] if rc != "timeout" else ""))
        first = done + 1
    return out


def split_trace(path, wdir, tag, nchunks):
    """Round-robin split (events are independent of each other), so the few expensive events are
    spread evenly."""
    outs = [open(os.path.join(wdir, "ch-%s-%02d.ndjson" % (tag, i)), "w") for i in range(nchunks)]
    n = 0
    with open(path) as fh:
        for line in fh:
            if line.strip():
                outs[n % nchunks].write(line)
                n += 1
    for o in outs:
        o.close()
    return [o.name for o in outs], n


def validate_chunk(path):
    n = sum(1 for _ in open(path))
    if n == 0:
        return path, n, None, {"n": 0, "nfail": 0, "fails": []}
    r = vlib.tlc("TraceBigInt", "TraceBigInt", workers=1, timeout=3000, env={"TRACE": path}, xmx="2g", xss="256m")
    res = None
    for p in r.printed:
        try:
            d = json.loads(p)
            if isinstance(d, dict) and "nfail" in d:
                res = d
        except ValueError:
            pass
    return path, n, r, res


def zbits(z):
    d = z["d"]
    return 0 if not d else (len(d) - 1) * 11 + d[-1].bit_length()


def size_class(n):
    for lim in (0, 1, 7, 14, 31, 32, 33, 61, 62, 63, 64, 65, 128, 200, 512, 1500):
        if n <= lim:
            return lim
    return 4000


def case_key(ev, fam):
    parts = [ev.get("rx"), ev.get("op"), fam]
    for f in FIELDS_Z:
        z = ev.get(f)
        if isinstance(z, dict) and "d" in z:
            parts.append("%s%s%d%s" % (f, "-" if z["n"] else "+", size_class(zbits(z)), "i" if z.get("i") else "a"))
    for f in ("k", "ix"):
        if f in ev:
            parts.append("%s%d" % (f, max(-1, min(1, ev[f])) * size_class(abs(ev[f]))))
    return "|".join(str(p) for p in parts)


def validate_worklists(chk, worklists, exes, wdir, label):
    """worklists: {rx: WorkList}.  Runs the drivers, validates with parallel TLC processes,
    returns list of failing events (dicts with line text)."""
    fails = []
    for rx, w in worklists.items():
        t0 = time.time()
        tr = run_harness(exes[rx], w.lines, rx, wdir, "%s-%d" % (label, rx))
        t_h = time.time() - t0
        nchunks = max(1, min(NPROC * 2, (len(w.lines) + 2999) // 3000))
        chunks, nev = split_trace(tr, wdir, "%s-%d" % (label, rx), nchunks)
        if nev != len(w.lines):
            raise vlib.MachineryError("driver wrote %d events for %d operations (%s, radix %d)" % (nev, len(w.lines), label, rx))
        byln = {}
        stats = collections.Counter()
        paths = collections.Counter()
        with open(tr) as fh:
            for line in fh:
                if not line.strip():
                    continue
                ev = json.loads(line)
                byln[ev["ln"]] = ev
                fam = w.fam[ev["ln"] - 1]
                chk.case(case_key(ev, fam))
                stats[ev.get("op", "?")] += 1
                for p in ev.get("paths", ()):
                    paths[p] += 1
                for f in ("r", "q", "g"):
                    if isinstance(ev.get(f), dict):
                        stats["res_immediate" if ev[f].get("i") else "res_allocated"] += 1
                        if ev[f].get("z"):
                            stats["res_leading_zero_places"] += 1
        t1 = time.time()
        with concurrent.futures.ThreadPoolExecutor(max_workers=NPROC) as ex:
            results = list(ex.map(validate_chunk, chunks))
        t_v = time.time() - t1
        tot_states = 0
        for path, n, r, res in results:
            if r is None:
                continue
            if r.error or res is None or r.violated:
                raise vlib.MachineryError("TraceBigInt did not accept %s: %s" % (os.path.basename(path), r.error or r.violated or r.out[-800:]))
            if res["n"] != n:
                raise vlib.MachineryError("TraceBigInt consumed %d of %d events in %s" % (res["n"], n, path))
            if res["nfail"] >= 400:
                chk.extra.setdefault("notes", []).append("more than 400 failing events in one chunk; list truncated")
            tot_states += r.distinct
            chk.states += r.distinct
            chk.transitions += r.states
            for f in res["fails"]:
                ev = byln.get(f["ln"], {})
                fails.append({"rx": rx, "ln": f["ln"], "op": f["op"], "why": f["why"], "line": w.lines[f["ln"] - 1],
                              "fam": w.fam[f["ln"] - 1], "event": ev})
        chk.traces += 1
        chk.tlc_runs.append({"name": "TraceBigInt[%s radix 2^%d]" % (label, rx), "generated": tot_states, "distinct": tot_states,
                             "wall_s": round(t_v, 2), "chunks": len(chunks), "events": nev, "driver_s": round(t_h, 2)})
        chk.extra.setdefault("events_by_op", {})["%s-%d" % (label, rx)] = dict(stats)
        if rx == 7:
            pc = chk.extra.setdefault("drift", {}).setdefault("knuthD_path_labels_radix7", {})
            for k in ("d1", "ujeqv1", "corr2", "rhatov", "addback"):
                pc[k] = pc.get(k, 0) + paths.get(k, 0)
    return fails


def confirm_and_report(chk, fails, exes, wdir):
    """Report each failing event; an event that is not a known finding is re-executed alone first
    (a rejection counts only if it repeats)."""
    unknown = []
    for f in fails:
        key = {"op": f["op"], "why": f["why"], "rx": f["rx"], "line": f["line"]}
        if any(fd.get("status") == "open" and vlib.finding_matches(fd, key) for fd in chk.findings):
            chk.violation("%s: %s" % (f["op"], f["why"]), f, key=key)      # counted as KNOWN-FINDING
        else:
            unknown.append(f)
    if not unknown:
        return
    again = set()
    rerun = set()
    for rx in sorted(set(f["rx"] for f in unknown)):
        sub = [f for f in unknown if f["rx"] == rx][:300]
        w = bigint_ops.WorkList(rx)
        for f in sub:
            w.lines.append(f["line"])
            w.fam.append(f["fam"])
            rerun.add((rx, f["line"]))
        tr = run_harness(exes[rx], w.lines, rx, wdir, "confirm-%d" % rx)
        path, n, r, res = validate_chunk(tr)
        if r is None or r.error or res is None:
            raise vlib.MachineryError("confirmation run failed: %s" % (r.error if r else "no events"))
        for g in res["fails"]:
            again.add((rx, w.lines[g["ln"] - 1], g["why"]))
    per_class = collections.Counter()
    for f in unknown:
        if (f["rx"], f["line"]) in rerun and (f["rx"], f["line"], f["why"]) not in again:
            chk.extra.setdefault("flaky", []).append({"line": f["line"][:200], "why": f["why"]})
            continue
        k = (f["rx"], f["op"], f["why"])
        per_class[k] += 1
        if per_class[k] > 3 or len(chk.violations) >= 40:
            continue            # same class already reported; counts are in the evidence
        chk.violation("radix 2^%d %s: %s   [%s]" % (f["rx"], f["op"], f["why"], f["line"][:160]), f,
                      key={"op": f["op"], "why": f["why"], "rx": f["rx"], "line": f["line"]})


def run_model(chk, tier):
    """(A) BigIntImpl refines BigZ, exhaustively at R = 4 and R = 8; returns exported path patterns."""
    pats = []
    cfgs = [("BigIntImpl", "BigIntImplR4"), ("BigIntImpl", "BigIntImplR8")] if tier == "quick" else \
           [("BigIntImpl", "BigIntImplR4"), ("BigIntImpl", "BigIntImplR8"), ("BigIntImpl", "BigIntImplR4deep"), ("BigIntImpl", "BigIntImplR8deep")]
    for mod, cfg in cfgs:
        if not os.path.exists(os.path.join(vlib.SPEC, cfg + ".cfg")):
            continue
        r = vlib.tlc(mod, cfg, workers=max(2, min(8, vlib.NCPU // 2)), timeout=1500, xmx="4g")
        chk.add_tlc(cfg, r)
        if r.violated:
            chk.violation("algorithm model: %s violated in %s" % (r.violated, cfg), r.trace_text, key={"model": "BigIntImpl", "cfg": cfg, "inv": r.violated})
        for p in r.printed:
            try:
                d = json.loads(p)
            except ValueError:
                continue
            if isinstance(d, dict) and "path" in d:
                pats.append(d)
    return pats


def run(chk, tier):
    quick = tier == "quick"
    b = vlib.vbuild()
    exes = build_harnesses(b)
    wdir = vlib.scratch("c11")
    chk.rule = ("one case = one operation applied to operands of one family (pow2+-2 up to 2^200 / immediate-allocated boundary / "
                "digit-boundary patterns at radix 2^7,2^11,2^16,2^32 / Knuth-D corner patterns / random up to 4000 bits); distinct = "
                "(radix build, operation, family, sign and bit-length class and representation of every operand, shift/bit index class); "
                "every case is judged by TLC (TraceBigInt) against BigZ")
    chk.exhaustive = False
    chk.assumptions += [
        "bit length of zero is 1 (documented in bigint.c); bit test and right shift of a negative value: magnitude or two's complement/floor convention both accepted; modulus by a negative number: any representative with |m| < |b| accepted",
        "the radix-2^7 build (BIGINT_DO_DEBUG) is an instrument: bintMod/bintModi and bintRadixScanFrString for input radix > 11 are written for the production radix only and are exercised at radix 2^32 only",
        "operand values are observed in the raw representation (struct bint / immediate word); hints (cofactors) logged by the driver are used by TLC only through identities that prove the result",
    ]

    # oracle guard and algorithm model run while the drivers and trace validation are busy
    pool = concurrent.futures.ThreadPoolExecutor(max_workers=2)
    fut_oracle = pool.submit(lambda: vlib.tlc("BigZCheck", "BigZCheckQuick" if quick else "BigZCheck",
                                               workers=4 if quick else 8, timeout=1500, xmx="2g"))

    rounds = 1 if quick else int(os.environ.get("VERIF_C11_ROUNDS", "3"))
    all_fails = []
    t_budget = time.time() + (100 if quick else 1500)
    for rnd in range(rounds):
        wls = {rx: bigint_ops.generate(rx, tier, chk.seed + 7919 * rnd) for rx in (32, 7)}
        all_fails += validate_worklists(chk, wls, exes, wdir, "r%d" % rnd)
        for rx in wls:
            for ln in wls[rx].lines[:2] if rnd == 0 and rx == 32 else ():
                chk.sample({"radix": rx, "operation": ln[:120]})
        if time.time() > t_budget:
            break

    # (A) + (B): algorithm model, then its path patterns instantiated at the real radices
    pats = run_model(chk, tier)
    if pats and hasattr(bigint_ops, "from_patterns"):
        wls = {rx: bigint_ops.from_patterns(pats, rx, chk.seed, tier) for rx in (32, 7)}
        chk.extra["path_patterns"] = {"exported": len(pats), "distinct_paths": len(set(p["path"] for p in pats))}
        all_fails += validate_worklists(chk, wls, exes, wdir, "paths")
        chk.sample({"path_pattern": pats[0]})

    r = fut_oracle.result()
    chk.add_tlc("BigZCheck", r)
    if r.violated:
        raise vlib.MachineryError("the oracle BigZ.tla disagrees with TLC's native integers: %s" % r.trace_text[:1500])
    pool.shutdown()

    confirm_and_report(chk, all_fails, exes, wdir)
    if all_fails:
        by = collections.Counter((f["op"], f["why"]) for f in all_fails)
        chk.extra["failing_events_by_class"] = [{"op": k[0], "why": k[1], "count": v} for k, v in by.most_common()]
    lab = chk.extra.get("drift", {}).get("knuthD_path_labels_radix7", {})
    if lab and any(v == 0 for v in lab.values()):
        chk.extra.setdefault("notes", []).append("Knuth D path labels never printed by the radix-2^7 build: %s" %
                                                 ", ".join(k for k, v in lab.items() if v == 0))


def replay(d):
    """bin/verif replay C11 <file>: re-execute the recorded operation and show TLC's verdict."""
    det = d.get("detail") or {}
    if not isinstance(det, dict) or "line" not in det:
        return 0
    b = vlib.vbuild()
    exes = build_harnesses(b)
    wdir = vlib.scratch("c11r")
    tr = run_harness(exes[det["rx"]], [det["line"]], det["rx"], wdir, "replay")
    print(open(tr).read())
    path, n, r, res = validate_chunk(tr)
    print(json.dumps(res, indent=1))
    return 1 if res and res["nfail"] else 0


SELFTEST_NOTES = """
(filled in below by the builder after the mutation runs)
"""
