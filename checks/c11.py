"""C11 -- Big-integer arithmetic is exact.

Decided by TLC in three ways (DESIGN.md section 5 C11):
  (A) spec/BigIntImpl.tla: the algorithms of bigint.c as written (digit vectors in radix R,
      immediate/allocated switch, carry chains, schoolbook product, Knuth D with q-hat
      estimate / correction / add-back, normalisation) refine the mathematical integers,
      exhaustively for R = 4 and R = 8 over operands of up to 3-4 digits;
      spec/BigZCheck.tla guards the oracle BigZ.tla against TLC's native integers.
  (B) the per-path operand patterns exported from BigIntImpl are instantiated at the real radices
      and executed (path labels are drift-only).
  (C) spec/TraceBigInt.tla validates traces recorded from the repository's bigint.c / foam_i.c by
      harness/bigint_drv.c, built twice: production radix 2^32 and -DBIGINT_DO_DEBUG (radix 2^7).
Python generates inputs, runs processes and counts; every verdict is a TLC computation.
"""
import collections
import concurrent.futures
import json
import os
import subprocess
import time

import vlib
from gen import bigint_ops

META = {
    "title": "Big-integer arithmetic is exact",
    "level": "model_checking",
    "technique": "TLC: BigIntImpl refines BigZ (exhaustive, R=4,8); trace validation of the real bigint.c at radix 2^32 and 2^7 against BigZ with division/gcd certificates",
    "design_ref": "DESIGN.md §5 C11, §3.2, §3.3, Appendix A",
    "level_text": "explicit-state model checking of the algorithm model within small-radix bounds; conformance of the real code by TLC-validated traces over the operand families of the property",
    "level_note": "exhaustive only for the model (R=4/8, <=4 digits); the real code is covered on the enumerated operand families and seeded random values, not for all integers",
}

HARNESS = os.path.join(vlib.VERIF, "harness", "bigint_drv.c")
NPROC = max(2, min(10, vlib.NCPU - 4))

FIELDS_Z = ("a", "b", "c", "e", "v")      # operand fields of an event that hold integers


def build_harnesses(b):
    h32 = vlib.harness_build("bigint32", [HARNESS], b, defines=("DRV_LG=32",))
    h7 = vlib.harness_build("bigint7", [HARNESS, os.path.join(vlib.SRC, "bigint.c")], b,
                            defines=("DRV_LG=7", "BIGINT_DO_DEBUG"))
    return {32: h32, 7: h7}


MAX_FAULTS = 25


def run_harness(exe, w, rx, wdir, tag):
    """Run the driver over the work list `w`; restart after a fault/hang so that one bad operation
    does not hide the rest (after MAX_FAULTS of them the remaining operations are dropped from the
    list).  Returns the path of the ndjson trace (one event per remaining line of work)."""
    lines = w.lines
    wl = os.path.join(wdir, "wl-%s.txt" % tag)
    out = os.path.join(wdir, "tr-%s.ndjson" % tag)
    with open(wl, "w") as fh:
        fh.write("\n".join(lines) + "\n")
    if os.path.exists(out):
        os.unlink(out)
    first = 1
    faults = 0
    while first <= len(lines):
        try:
            p = subprocess.run([exe, wl, out, str(first)], stdout=subprocess.DEVNULL, stderr=subprocess.PIPE,
                               timeout=600 + len(lines) // 100)
            rc = p.returncode
        except subprocess.TimeoutExpired:
            rc = "timeout"
        if rc == 0:
            break
        faults += 1
        with open(out, "rb") as fh:
            data = fh.read()
        good = data[:data.rfind(b"\n") + 1] if b"\n" in data else b""
        evs = []
        last = None
        for l in good.split(b"\n"):          # drop the half-written event of the operation that died
            if l.strip():
                try:
                    last = json.loads(l.decode())
                    evs.append(l)
                except ValueError:
                    pass
        if rc in (70, 71) and last and last.get("ev") in ("Fault", "Hang"):
            done = last["ln"]
        elif rc == "timeout" or (isinstance(rc, int) and rc < 0):
            done = (last["ln"] if last else first - 1) + 1
            op = lines[done - 1].split()[0] if done <= len(lines) else "?"
            evs.append(json.dumps({"ev": "Hang" if rc == "timeout" else "Fault", "op": op, "ln": done, "rx": rx,
                                   "signal": 0 if rc == "timeout" else -rc}).encode())
        else:
            raise vlib.MachineryError("bigint_drv failed rc=%s: %s" % (rc, p.stderr.decode(errors="replace")[-500:]))
        with open(out, "wb") as fh:
            fh.write(b"\n".join(evs) + b"\n")
        first = done + 1
        if faults >= MAX_FAULTS and first <= len(lines):
            del w.lines[done:]
            del w.fam[done:]
            break
    return out


def split_trace(path, wdir, tag, nchunks):
    """Round-robin split (events are independent of each other), so the few expensive events are
    spread evenly."""
    outs = [open(os.path.join(wdir, "ch-%s-%02d.ndjson" % (tag, i)), "w") for i in range(nchunks)]
    n = 0
    with open(path) as fh:
        for line in fh:
            if line.strip():
                outs[n % nchunks].write(line)
                n += 1
    for o in outs:
        o.close()
    return [o.name for o in outs], n


def validate_chunk(path):
    n = sum(1 for _ in open(path))
    if n == 0:
        return path, n, None, {"n": 0, "nfail": 0, "fails": []}
    r = vlib.tlc("TraceBigInt", "TraceBigInt", workers=1, timeout=3000, env={"TRACE": path}, xmx="2g", xss="256m")
    res = None
    for p in r.printed:
        try:
            d = json.loads(p)
            if isinstance(d, dict) and "nfail" in d:
                res = d
        except ValueError:
            pass
    return path, n, r, res


def zbits(z):
    d = z["d"]
    return 0 if not d else (len(d) - 1) * 11 + d[-1].bit_length()


def size_class(n):
    for lim in (0, 1, 7, 14, 31, 32, 33, 61, 62, 63, 64, 65, 128, 200, 512, 1500):
        if n <= lim:
            return lim
    return 4000


def case_key(ev, fam):
    parts = [ev.get("rx"), ev.get("op"), fam]
    for f in FIELDS_Z:
        z = ev.get(f)
        if isinstance(z, dict) and "d" in z:
            parts.append("%s%s%d%s" % (f, "-" if z["n"] else "+", size_class(zbits(z)), "i" if z.get("i") else "a"))
    for f in ("k", "ix"):
        if f in ev:
            parts.append("%s%d" % (f, max(-1, min(1, ev[f])) * size_class(abs(ev[f]))))
    return "|".join(str(p) for p in parts)


def validate_worklists(chk, worklists, exes, wdir, label):
    """worklists: {rx: WorkList}.  Runs the drivers, validates all chunks with parallel TLC
    processes (each -workers 1), returns the failing events (dicts with the work-list line)."""
    fails = []
    jobs = []          # (rx, chunk path)
    info = {}
    for rx, w in worklists.items():
        if not w.lines:
            continue
        t0 = time.time()
        tr = run_harness(exes[rx], w, rx, wdir, "%s-%d" % (label, rx))
        t_h = time.time() - t0
        nchunks = max(1, min(NPROC, (len(w.lines) + 5999) // 6000))
        chunks, nev = split_trace(tr, wdir, "%s-%d" % (label, rx), nchunks)
        if nev != len(w.lines):
            raise vlib.MachineryError("driver wrote %d events for %d operations (%s, radix %d)" % (nev, len(w.lines), label, rx))
        stats = collections.Counter()
        paths = collections.Counter()
        with open(tr) as fh:
            for line in fh:
                if not line.strip():
                    continue
                ev = json.loads(line)
                fam = w.fam[ev["ln"] - 1]
                chk.case(case_key(ev, fam))
                stats[ev.get("op", "?")] += 1
                for p in ev.get("paths", ()):
                    paths[p] += 1
                if ev["ln"] in w.meta and "paths" in ev and ev.get("op") == "divide":
                    want = set(w.meta[ev["ln"]]) & set(COMMON_LABELS)
                    got = set(ev["paths"]) & set(COMMON_LABELS)
                    dr = chk.extra.setdefault("drift", {}).setdefault("model_path_vs_radix7_build", {"same": 0, "different": 0})
                    dr["same" if want == got else "different"] += 1
                    if want != got and "first_difference" not in dr:
                        dr["first_difference"] = {"operation": w.lines[ev["ln"] - 1][:120], "model": sorted(want), "build": sorted(got)}
                for f in ("r", "q", "g"):
                    if isinstance(ev.get(f), dict):
                        stats["res_immediate" if ev[f].get("i") else "res_allocated"] += 1
                        if ev[f].get("z"):
                            stats["res_leading_zero_places"] += 1
        info[rx] = {"trace": tr, "nev": nev, "t_h": t_h, "chunks": len(chunks), "states": 0}
        jobs += [(rx, c) for c in chunks]
        chk.extra.setdefault("events_by_op", {})["%s-%d" % (label, rx)] = dict(stats)
        if rx == 7:
            pc = chk.extra.setdefault("drift", {}).setdefault("knuthD_path_labels_radix7", {})
            for k in ("d1", "ujeqv1", "iter2", "rhatov", "addback"):
                pc[k] = pc.get(k, 0) + paths.get(k, 0)
    t1 = time.time()
    with concurrent.futures.ThreadPoolExecutor(max_workers=NPROC) as ex:
        results = list(ex.map(lambda j: (j[0],) + validate_chunk(j[1]), jobs))
    t_v = time.time() - t1
    for rx, path, n, r, res in results:
        if r is None:
            continue
        if r.error or res is None or r.violated:
            raise vlib.MachineryError("TraceBigInt did not accept %s: %s" % (os.path.basename(path), r.error or r.violated or r.out[-800:]))
        if res["n"] != n:
            raise vlib.MachineryError("TraceBigInt consumed %d of %d events in %s" % (res["n"], n, path))
        info[rx]["nfail"] = info[rx].get("nfail", 0) + res["nfail"]
        info[rx]["states"] += r.distinct
        chk.states += r.distinct
        chk.transitions += r.states
        w = worklists[rx]
        for f in res["fails"]:
            fails.append({"rx": rx, "ln": f["ln"], "op": f["op"], "why": f["why"], "line": w.lines[f["ln"] - 1],
                          "fam": w.fam[f["ln"] - 1], "event": None})
    # attach the recorded event to each failing operation (second pass over the trace, only if needed)
    for rx, inf in info.items():
        want = {f["ln"]: f for f in fails if f["rx"] == rx and f["event"] is None}
        if want:
            with open(inf["trace"]) as fh:
                for line in fh:
                    if line.strip():
                        ev = json.loads(line)
                        if ev.get("ln") in want:
                            want[ev["ln"]]["event"] = ev
    for _, c in jobs:
        os.unlink(c)
    for rx, inf in info.items():
        chk.traces += 1
        chk.tlc_runs.append({"name": "TraceBigInt[%s radix 2^%d]" % (label, rx), "generated": inf["states"], "distinct": inf["states"],
                             "wall_s": round(t_v, 2), "chunks": inf["chunks"], "events": inf["nev"], "failing_events": inf.get("nfail", 0), "driver_s": round(inf["t_h"], 2)})
    return fails


def corrupted_event_guard(chk, wdir, label="r0-32"):
    """Non-vacuity of the validator: flip one digit of one recorded result / one boolean of one
    comparison and require TLC to reject exactly those events."""
    tr = os.path.join(wdir, "tr-%s.ndjson" % label)
    picked = {}
    with open(tr) as fh:
        for line in fh:
            ev = json.loads(line)
            op = ev.get("op")
            if op in ("times", "divide", "tostring", "cmp", "gcd") and op not in picked:
                if op == "cmp" or (op == "tostring" and len(ev["s"]) > 3) or \
                   (op in ("times", "gcd") and ev["r" if op == "times" else "g"]["d"]) or (op == "divide" and ev["q"]["d"] and ev["r"]["d"]):
                    picked[op] = ev
            if len(picked) == 5:
                break
    evs = []
    for op, ev in picked.items():
        evs.append(json.loads(json.dumps(ev)))            # the intact event must still be accepted
        bad = json.loads(json.dumps(ev))
        if op == "times":
            bad["r"]["d"][0] ^= 1
        elif op == "gcd":
            bad["g"]["d"][0] ^= 1
        elif op == "divide":
            bad["r"]["d"][0] ^= 1
        elif op == "tostring":
            bad["s"][-1] = 48 + (bad["s"][-1] - 48 + 1) % 10
        else:
            bad["lt"] = not bad["lt"]
        evs.append(bad)
    for i, e in enumerate(evs):
        e["ln"] = i + 1
    path = os.path.join(wdir, "corrupt.ndjson")
    vlib.write_ndjson(path, evs)
    _, n, r, res = validate_chunk(path)
    if r is None or r.error or res is None:
        raise vlib.MachineryError("corrupted-event guard: TLC failed: %s" % (r.error if r else "no events"))
    got = sorted(f["ln"] for f in res["fails"])
    want = list(range(2, len(evs) + 1, 2))
    if got != want:
        raise vlib.MachineryError("corrupted-event guard: TraceBigInt rejected events %s, expected exactly the corrupted ones %s" % (got, want))
    chk.extra["corrupted_event_guard"] = {"corrupted": len(want), "rejected": len(got), "ops": sorted(picked)}


def model_drift(wdir, trace, limit):
    """Drift only: run the algorithm model at radix 2^7 on the operands of recorded divide events
    of the BIGINT_DO_DEBUG build and compare digit results and path labels (TraceBigIntImpl.tla)."""
    path = os.path.join(wdir, "drift7.ndjson")
    n = 0
    with open(trace) as fh, open(path, "w") as out:
        for line in fh:
            if '"op":"divide"' in line and '"paths"' in line:
                out.write(line)
                n += 1
                if n >= limit:
                    break
    if n == 0:
        return None
    r = vlib.tlc("TraceBigIntImpl", "TraceBigIntImpl", workers=1, timeout=1500, env={"TRACE": path}, xmx="2g", xss="256m")
    if r.error:
        return {"error": r.error[:300]}
    for p in r.printed:
        try:
            d = json.loads(p)
            if isinstance(d, dict) and "same" in d:
                d["wall_s"] = round(r.wall, 1)
                return d
        except ValueError:
            pass
    return {"error": "no result printed"}


def confirm_and_report(chk, fails, exes, wdir):
    """Report each failing event; an event that is not a known finding is re-executed alone first
    (a rejection counts only if it repeats)."""
    unknown = []
    for f in fails:
        key = {"op": f["op"], "why": f["why"], "rx": f["rx"], "line": f["line"]}
        if any(fd.get("status") == "open" and vlib.finding_matches(fd, key) for fd in chk.findings):
            chk.violation("%s: %s" % (f["op"], f["why"]), f, key=key)      # counted as KNOWN-FINDING
        else:
            unknown.append(f)
    if not unknown:
        return
    again = set()
    rerun = set()
    died = ("fault (signal) inside the operation", "operation did not return")
    for rx in sorted(set(f["rx"] for f in unknown)):
        sub = [f for f in unknown if f["rx"] == rx and f["why"] not in died][:200]
        if not sub:
            continue
        w = bigint_ops.WorkList(rx)
        for f in sub:
            w.lines.append(f["line"])
            w.fam.append(f["fam"])
            rerun.add((rx, f["line"]))
        tr = run_harness(exes[rx], w, rx, wdir, "confirm-%d" % rx)
        path, n, r, res = validate_chunk(tr)
        if r is None or r.error or res is None:
            raise vlib.MachineryError("confirmation run failed: %s" % (r.error if r else "no events"))
        for g in res["fails"]:
            again.add((rx, w.lines[g["ln"] - 1], g["why"]))
    per_class = collections.Counter()
    for f in unknown:
        if (f["rx"], f["line"]) in rerun and (f["rx"], f["line"], f["why"]) not in again:
            chk.extra.setdefault("flaky", []).append({"line": f["line"][:200], "why": f["why"]})
            continue
        k = (f["rx"], f["op"], f["why"])
        per_class[k] += 1
        if per_class[k] > 3 or len(chk.violations) >= 40:
            continue            # same class already reported; counts are in the evidence
        chk.violation("radix 2^%d %s: %s   [%s]" % (f["rx"], f["op"], f["why"], f["line"][:160]), f,
                      key={"op": f["op"], "why": f["why"], "rx": f["rx"], "line": f["line"]})


MODEL_CFGS = {
    "quick": ["BigIntImplR4", "BigIntImplR8"],
    "thorough": ["BigIntImplR4", "BigIntImplR8all", "BigIntImplR4wide", "BigIntImplR8wide", "BigIntImplR4deep", "BigIntImplR8deep", "BigIntImplR8b3"],
}
PATH_CFGS = ["BigIntImplR4Paths", "BigIntImplR8Paths"]
# labels of the model that the radix-2^7 build prints itself (bintDEBUG lines): drift comparison
COMMON_LABELS = ("d1", "ujeqv1", "rhatov", "addback")


def run_models(tier, workers):
    """(A) BigIntImpl refines BigZ, exhaustively at R = 4 and R = 8; then the path export.
    Runs in a helper thread: returns ([(cfg, TlcResult)], exported path patterns); the caller
    books the results."""
    pats = []
    runs = []
    for cfg in MODEL_CFGS[tier]:
        r = vlib.tlc("BigIntImpl", cfg, workers=workers, timeout=2400, xmx="3g")
        runs.append((cfg, r))
    for cfg in PATH_CFGS:
        r = vlib.tlc("BigIntImpl", cfg, workers=workers, timeout=1200, xmx="3g")
        runs.append((cfg, r))
        if r.error:
            raise vlib.MachineryError("TLC run %s failed: %s" % (cfg, r.error))
        n0 = len(pats)
        for p in r.printed:
            try:
                d = json.loads(p)
            except ValueError:
                continue
            if isinstance(d, dict) and "path" in d and "op" in d:
                pats.append(d)
        if len(pats) == n0:
            raise vlib.MachineryError("%s exported no path patterns" % cfg)
    labels = set(l for p in pats for l in p["path"])
    need = {"fast", "half", "n1", "ult", "d1", "dnorm", "dcarry", "ujeqv1", "corr1", "corr2", "rhatov", "addback", "carryout",
            "ripple", "borrowripple", "shrinks", "swap", "topzero", "res.imm", "res.sto", "q.sto", "r.sto", "nn", "np", "pn", "pp"}
    if need - labels:
        raise vlib.MachineryError("algorithm model never reached the paths %s" % sorted(need - labels))
    return runs, pats


def run(chk, tier):
    quick = tier == "quick"
    b = vlib.vbuild()
    exes = build_harnesses(b)
    wdir = vlib.scratch("c11")
    chk.rule = ("one case = one operation applied to operands of one family (pow2+-2 up to 2^200 / immediate-allocated boundary / "
                "digit-boundary patterns at radix 2^7,2^11,2^16,2^32 / Knuth-D corner patterns / random up to 4000 bits); distinct = "
                "(radix build, operation, family, sign and bit-length class and representation of every operand, shift/bit index class); "
                "every case is judged by TLC (TraceBigInt) against BigZ")
    chk.exhaustive = False
    chk.assumptions += [
        "bit length of zero is 1 (documented in bigint.c); bit test and right shift of a negative value: magnitude or two's complement/floor convention both accepted; modulus by a negative number: any representative with |m| < |b| accepted",
        "the radix-2^7 build (BIGINT_DO_DEBUG) is an instrument: bintMod/bintModi and bintRadixScanFrString for input radix > 11 are written for the production radix only and are exercised at radix 2^32 only",
        "operand values are observed in the raw representation (struct bint / immediate word); hints (cofactors) logged by the driver are used by TLC only through identities that prove the result",
    ]

    # oracle guard and algorithm model run while the drivers and trace validation are busy
    pool = concurrent.futures.ThreadPoolExecutor(max_workers=3)
    fut_drift = None
    fut_oracle = pool.submit(lambda: vlib.tlc("BigZCheck", "BigZCheckQuick" if quick else "BigZCheck",
                                               workers=3 if quick else 6, timeout=2400, xmx="2g"))
    fut_model = pool.submit(run_models, tier, 4 if quick else 6)

    rounds = 1 if quick else int(os.environ.get("VERIF_C11_ROUNDS", "4"))
    all_fails = []
    t_budget = time.time() + (100 if quick else 800)
    for rnd in range(rounds):
        wls = {rx: bigint_ops.generate(rx, tier, chk.seed + 7919 * rnd) for rx in (32, 7)}
        if rnd == 0:
            for ln in wls[32].lines[:1] + [l for l in wls[32].lines if l.startswith("divide")][:2] + [l for l in wls[7].lines if l.startswith("gcd")][:1]:
                chk.sample({"operation": ln[:160]})
        all_fails += validate_worklists(chk, wls, exes, wdir, "r%d" % rnd)
        if rnd == 0:
            corrupted_event_guard(chk, wdir)
            os.rename(os.path.join(wdir, "tr-r0-7.ndjson"), os.path.join(wdir, "keep-r0-7.ndjson"))
            fut_drift = pool.submit(model_drift, wdir, os.path.join(wdir, "keep-r0-7.ndjson"), 400 if quick else 8000)
        for rx in (32, 7):
            for f in ("tr-r%d-%d.ndjson" % (rnd, rx), "wl-r%d-%d.txt" % (rnd, rx)):
                if os.path.exists(os.path.join(wdir, f)):
                    os.unlink(os.path.join(wdir, f))
        if time.time() > t_budget:
            break

    # (B): the model's path patterns instantiated at the real radices
    runs, pats = fut_model.result()
    for cfg, r in runs:
        chk.add_tlc(cfg, r)
        if r.violated:
            chk.violation("algorithm model of bigint.c does not refine the integers: %s violated in %s" % (r.violated, cfg),
                          r.trace_text, key={"model": "BigIntImpl", "cfg": cfg, "inv": r.violated})
    wls = {rx: bigint_ops.from_patterns(pats, rx, chk.seed, tier) for rx in (32, 7)}
    chk.extra["path_patterns"] = {"exported": len(pats), "distinct_paths": len(set((p["op"], tuple(sorted(p["path"]))) for p in pats))}
    chk.sample({"path_pattern": pats[0]})
    all_fails += validate_worklists(chk, wls, exes, wdir, "paths")

    if fut_drift is not None:
        chk.extra.setdefault("drift", {})["model_at_radix7_vs_build_on_recorded_divides"] = fut_drift.result()
    r = fut_oracle.result()
    chk.add_tlc("BigZCheck", r)
    if r.violated:
        raise vlib.MachineryError("the oracle BigZ.tla disagrees with TLC's native integers: %s" % r.trace_text[:1500])
    pool.shutdown()

    confirm_and_report(chk, all_fails, exes, wdir)
    if all_fails:
        by = collections.Counter((f["op"], f["why"]) for f in all_fails)
        chk.extra["failing_events_by_class"] = [{"op": k[0], "why": k[1], "count": v} for k, v in by.most_common()]
    lab = chk.extra.get("drift", {}).get("knuthD_path_labels_radix7", {})
    if lab and any(v == 0 for v in lab.values()):
        chk.extra.setdefault("notes", []).append("Knuth D path labels never printed by the radix-2^7 build: %s" %
                                                 ", ".join(k for k, v in lab.items() if v == 0))


def replay(d):
    """bin/verif replay C11 <file>: re-execute the recorded operation and show TLC's verdict."""
    det = d.get("detail") or {}
    if not isinstance(det, dict) or "line" not in det:
        return 0
    b = vlib.vbuild()
    exes = build_harnesses(b)
    wdir = vlib.scratch("c11r")
    w = bigint_ops.WorkList(det["rx"])
    w.lines.append(det["line"])
    w.fam.append("replay")
    tr = run_harness(exes[det["rx"]], w, det["rx"], wdir, "replay")
    print(open(tr).read())
    path, n, r, res = validate_chunk(tr)
    print(json.dumps(res, indent=1))
    return 1 if res and res["nfail"] else 0


SELFTEST_NOTES = """
Binding demonstration (2026-10-04; each mutation in a scratch git worktree of /repo, check run as
`VERIF_SRC=<wt>/aldor/aldor/src bin/verif check C11 --tier quick`; all worktrees removed afterwards).
The machine was shared (load average 150-240) during these runs, so the wall times are not representative.

 mutation (one line each, all compile)                                              result
 1 bigint.c iintDivide D6: `Placev(q)[KtoJq(kj)]--` removed (add-back forgets q)      CAUGHT 12 VIOLATION lines: divide/quo "|r| >= |b|"... at both radices
 2 bigint.c PlusStep: carry test `r_ >= BINT_RADIX` -> `r_ > BINT_RADIX`                CAUGHT 20 lines: plus/minus "wrong value", faults and hangs inside minus/gcd (watchdog)
 3 bigint.c bintLT negative branch: `Placec(a) > Placec(b)` -> `<`                      CAUGHT 6 lines: cmp "LT wrong" at radix 2^32 and 2^7
 4 bigint.c bintShift: `rbitc <= INT_LG_IMMED` -> `INT_LG_IMMED + 1`                    CAUGHT 12 lines: shift "wrong value" at the immediate boundary
 5 bigint.c TestGTDouble: `(l1)>(l2)` -> `(l1)>=(l2)` (q-hat correction test)           CAUGHT 20 lines: divide "|r| >= |b|", quo "wrong quotient", gcd does not return
 6 bigint.c bintRadixScanFrString chunk loop: letter digit value `+ 10` -> `+ 11`       CAUGHT 6 lines: frstring "wrong value" (radix > 10, second chunk)
 7 foam_i.c fiBIntGcd: second operand not negated                                      CAUGHT 6 lines: gcd "wrong gcd" (negative result)
 8 bigint.c xintImmedIfCan: `MkImmed(-(IInt)u)` -> `MkImmed((IInt)u)` (sign lost)       CAUGHT 20 lines: minus/plus/times... "wrong value"
 none missed.  The first attempt at (2) exposed a machinery weakness (a hanging operation cost 180 s per
 restart and the half-written event broke the event count): fixed with a 20 s per-operation watchdog in the
 driver, a cap of 25 faults per run and filtering of the half-written line.

Corrupted events: built into every run (corrupted_event_guard): one digit of a product, of a gcd, of a
remainder, one character of a decimal text and one boolean of a comparison are flipped in recorded events;
TLC must reject exactly those 5 and accept the 5 intact copies, otherwise the run is a machinery error.
Observed: {'corrupted': 5, 'rejected': 5}.

Model self-test (spec/BigIntImpl.tla, constant MUT): "times-drop-carry" and "no-addback" violate Check at R=4
within seconds; "qhat-weak-test" (low half of the q-hat test ignored) does NOT violate it at R=4, DA=4, DB=3 --
add-back repairs the over-estimate there, the variant is kept as a documented benign mutation.
Path coverage: run_models raises a machinery error if any of 26 expected path labels is never exported.
Drift: the model instantiated at radix 2^7 (TraceBigIntImpl.tla) reproduced quotient, remainder and the path
labels printed by the BIGINT_DO_DEBUG build on 1700 of 1700 recorded divide events.

Candidate patch hooks/candidate-c11-bintmod-residue.diff: with it applied (worktree) the quick check reports only
the bintShiftRem finding; the three BIntMod/BIntPowerMod findings disappear and nothing else changes.
Unchanged tree: held (exit 0, four KNOWN-FINDING lines) with VERIF_SEED=20261004 and VERIF_SEED=777.
"""
