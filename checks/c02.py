"""C02 -- Optimisation settings never change program behaviour."""
import json
import os
import random
import re
import sys

import vlib
import progcheck
import progrun

sys.path.insert(0, os.path.join(vlib.VERIF, "gen"))
import progen  # noqa: E402
import fixedprogs  # noqa: E402
import corpus  # noqa: E402

META = {
    "title": "Optimisation settings never change program behaviour",
    "level": "model_checking",
    "technique": "Opt.tla (optimiser control machine) enumerated by TLC gives the configuration space and pass schedules; AldorSem.tla gives the expected behaviour; every (program, configuration) run is compared with it",
    "design_ref": "DESIGN.md 3.11 (Opt), 5 C02",
    "level_text": "TLC enumerates the option space of the optimiser control machine Opt.tla (10 levels, -O, every single switch on or off after a "
                  "level) and checks its invariants; each chosen configuration is applied to programs whose behaviour TLC derived from "
                  "AldorSem.tla, so every setting is compared with the language definition (which implies equality with all-off and "
                  "pairwise). The -WD+optf pass trace is matched against Opt.tla's Schedule to show which passes really ran (drift-only).",
    "level_note": "Trusted: AldorSem.tla, renderer, gcc, shipped libraries. The deterministic part of the pinned corpus goes through the Obs "
                  "monitor (TraceObs.tla), grouped by route (interpreter levels against interpreter -Q0; in the thorough tier also the "
                  "executable's levels against the executable at -Q0); corpus programs whose behaviour the language does not define are "
                  "excluded with their reasons (lib/corpus.py). The random-subset part uses two toggles after a level (Opt2.cfg) in the "
                  "thorough tier. Sub-families make exceptions, stores, calls and partially redundant expressions frequent.",
}


def configs(chk, tier):
    r = vlib.tlc("Opt", "Opt", workers=4, timeout=300)
    chk.add_tlc("Opt", r)
    if r.violated:
        chk.violation("Opt.tla violates %s" % r.violated, r.trace_text, key={"model": "Opt", "inv": r.violated})
    cfgs = [json.loads(l[7:]) for l in r.printed if isinstance(l, str) and l.startswith("CONFIG ")]
    if len(cfgs) < 400:
        raise vlib.MachineryError("Opt.tla exported only %d configurations" % len(cfgs))
    byopts = {tuple(c["opts"]): c for c in cfgs}
    names = sorted(set(n for c in cfgs for n in c["on"]) | {"cc-fnonstd", "killp", "argsub"})
    chosen = []
    for lev in range(10):
        chosen.append(byopts[("-Q%d" % lev,)])
    chosen.append(byopts[("-O",)])
    rnd = random.Random(chk.seed)
    singles = [byopts[("-Q0", "-Q" + n)] for n in names if ("-Q0", "-Q" + n) in byopts]
    compl = [byopts[("-Q9", "-Qno-" + n)] for n in names if ("-Q9", "-Qno-" + n) in byopts]
    others = [c for c in cfgs if len(c["opts"]) == 2 and c not in singles and c not in compl]
    if tier == "quick":
        chosen += singles + compl + rnd.sample(others, 10)
    else:
        chosen += singles + compl + others
        r2 = vlib.tlc("Opt", "Opt2", workers=vlib.NCPU, timeout=900)
        chk.add_tlc("Opt2", r2)
        c2 = [json.loads(l[7:]) for l in r2.printed if isinstance(l, str) and l.startswith("CONFIG ")]
        c2 = [c for c in c2 if len(c["opts"]) == 3]
        seen = set()
        for c in rnd.sample(c2, min(len(c2), 4000)):
            k = (c["level"], tuple(sorted(c["on"])))
            if k not in seen:
                seen.add(k)
                chosen.append(c)
            if len(seen) >= 150:
                break
    return chosen, len(cfgs)


def schedule_drift(b, prog, cfg, wd):
    """Run with -WD+optf and compare the printed pass starts with Opt.tla's Schedule (drift-only)."""
    d = os.path.join(wd, "sched")
    os.makedirs(d, exist_ok=True)
    src = os.path.join(d, "p.as")
    open(src, "w").write(progcheck.render.render(prog))
    rc, out, err, to = vlib.aldor(b, list(cfg["opts"]) + ["-WD+optf", "-Fao", "p.as"], d, timeout=120)
    text = (out + err).decode(errors="replace")
    seen = re.findall(r"^Starting (.*?)\.\.\.", text, re.M)
    want = [s for s in cfg["schedule"]]
    # "expr inline*" stands for zero or more repetitions
    i = j = 0
    ok = True
    while i < len(want):
        if want[i] == "expr inline*":
            while j < len(seen) and seen[j] == "expr inline":
                j += 1
            i += 1
            continue
        if j < len(seen) and seen[j] == want[i]:
            i += 1
            j += 1
        else:
            ok = False
            break
    if j != len(seen):
        ok = False
    return ok, seen


def run(chk, tier):
    b = vlib.vbuild()
    wd = vlib.scratch("c02")
    chosen, total = configs(chk, tier)
    nprog = 16 if tier == "quick" else 60
    progs = progen.generate((chk.seed + 13) % 1000003, nprog) + fixedprogs.fixed_regressions() + fixedprogs.findings_opt()
    fam = progcheck.Family(chk, progs, "gen", workers=vlib.NCPU, timeout=1500)
    routes = [("interp " + " ".join(c["opts"]), "interp", None, tuple(c["opts"])) for c in chosen]
    # the C route for the plain levels (the optimised FOAM also goes through the C generator)
    routes += [("c " + " ".join(c["opts"]), "c", None, tuple(c["opts"])) for c in chosen if len(c["opts"]) == 1]
    progcheck.replay(chk, b, fam, routes, wd)
    # a wider set of programs (incl. the exception-dense and store-dense sub-families) under the level options only
    nwide = 60 if tier == "quick" else 600
    wide = progen.generate((chk.seed + 17) % 1000003, nwide // 2)
    for i in range(nwide // 4):
        g = progen.ProgGen(((chk.seed + 19) % 1000003) * 100003 + i, emph=("try",))
        g.feat |= {"try", "fun"}
        g.exns = g.exns or ["Ex0", "Ex1", "Ex2"]
        wide.append(g.program("wx%d" % i))
        g = progen.ProgGen(((chk.seed + 23) % 1000003) * 100003 + i, emph=("store",))
        g.feat |= {"arr", "rec", "fun", "un"}
        wide.append(g.program("ws%d" % i))
    # ... and programs whose local SingleInteger variables are held as Pointer (copies through `pretend` casts: a rendering
    # option, the same program for AldorSem); straight-line and loop code in functions, where copy propagation works
    for p in progen.generate((chk.seed + 31) % 1000003, 30 if tier == "quick" else 300, features=["fun", "while", "for", "bi", "exit"]):
        q = progen.hold_as_pointer(p)
        if q:
            wide.append(q)
    # ... and programs with collect forms over generators (inlining of generator functions into the gathering loop)
    wide += progen.generator_collect_family((chk.seed + 29) % 1000003, 10 if tier == "quick" else 150, with_try=False)
    # ... and programs whose functions compute an expression on a path that may not run and again after the join
    for i in range(nwide // 6):
        g = progen.ProgGen(((chk.seed + 27) % 1000003) * 100003 + i, emph=("cse", "call"), size=6)
        g.feat |= {"fun", "list", "for", "filt", "while"}
        wide.append(g.program("wr%d" % i))
    # ... and constant expressions over boundary literals: run by the library with optimisation off, folded at compile time from -Q2
    import foldprogs
    wide += foldprogs.programs(chk.seed % 1000003, 3 if tier == "quick" else None)
    famw = progcheck.Family(chk, wide, "wide", workers=vlib.NCPU, timeout=1500)
    lvl = [c for c in chosen if len(c["opts"]) == 1 and c["opts"][0] in ("-Q0", "-Q2", "-Q3", "-Q5", "-Q9", "-O")]
    progcheck.replay(chk, b, famw, [("interp " + c["opts"][0], "interp", None, tuple(c["opts"])) for c in lvl], wd)
    # schedule trace (drift-only): which passes really ran for each configuration
    drift = []
    ran = {}
    if fam.replayable:
        p = fam.replayable[0]
        for c in chosen:
            ok, seen = schedule_drift(b, p, c, wd)
            for s in seen:
                ran[s] = ran.get(s, 0) + 1
            if not ok:
                drift.append({"opts": c["opts"], "predicted": c["schedule"], "observed": seen})
    # the pinned corpus through the Obs monitor: every level must give the observation of -Q0 (interpreter route)
    allnames = corpus.names()
    rnd = random.Random(chk.seed + 1)
    always = [n for n in allnames if n in ("defgroup0", "bug1096", "bug1180") or n.startswith(("opt", "inline", "fold", "cse", "loop"))]
    sample = allnames if tier == "thorough" else sorted(set(always + rnd.sample(allnames, 30)))
    clv = [1, 2, 3] if tier == "quick" else list(range(1, 10))
    ccfgs = [("interp-Q0", "interp", ("-Q0",))] + [("interp-Q%d" % q, "interp", ("-Q%d" % q,)) for q in clv]
    if tier == "thorough":
        # the executable route too; observations are grouped by (program, route): each route's levels must agree with
        # that route's -Q0 (differences between the routes are C03's subject)
        ccfgs += [("c-Q%d" % q, "c", ("-Q%d" % q,)) for q in (0, 1, 2, 3, 5, 9)]
    chk.extra["corpus"] = corpus.observe(chk, b, sample, ccfgs, os.path.join(wd, "corpus"), "C02", "interp-Q0",
                                         group=lambda n, label: n + "@" + label.split("-")[0])
    chk.extra["configurations_in_model"] = total
    chk.extra["configurations_replayed"] = len(chosen)
    chk.extra["schedule_drift"] = drift[:10]
    chk.extra["schedule_drift_count"] = len(drift)
    chk.extra["passes_observed_running"] = ran
    chk.extra["programs_by_status"] = fam.status_count
    chk.sample({"config": chosen[-1], "program_id": fam.replayable[0]["id"] if fam.replayable else None})
    chk.sample({"program": progcheck.render.render(fam.replayable[0])[:1200], "expected_out": fam.exp[fam.replayable[0]["id"]]["out"][:300]})
    chk.rule = ("configurations exported by TLC from Opt.tla (10 levels, -O, each switch on after -Q0, each switch off after -Q9, seeded "
                "others) x generated programs with TLC-derived expected output; a case is (program, configuration, route)")
