"""C13 -- Interactive evaluation equals batch evaluation."""
import concurrent.futures
import json
import os
import random
import shutil
import sys

import vlib
import progcheck

sys.path.insert(0, os.path.join(vlib.VERIF, "gen"))
import render  # noqa: E402
import replhist  # noqa: E402
import replsess  # noqa: E402

META = {
    "title": "Interactive evaluation equals batch evaluation",
    "level": "model_checking",
    "technique": "Repl.tla (the interactive loop as AldorSem's file level stepped form by form, plus the rejected-form rule), ReplTab.tla "
                 "(the file-level symbol table as a map name -> set of meanings across steps, the roll-back of a rejected step as an action "
                 "with the postcondition `table = table before the step') and ReplReader.tla (the required grouping of input lines into "
                 "steps as a lexical state machine) checked by TLC; TLC's histories / sessions replayed into `aldor -Gloop' and the whole "
                 "file into `aldor -Ginterp'",
    "design_ref": "DESIGN.md 3.12 (Repl), 5 C13",
    "level_text": "TLC enumerates, for every program of the family, every history: the program's top-level forms in order interleaved at all "
                  "positions with up to maxbad erroneous forms (ill-typed catalogue, forms of the program entered before a name they read "
                  "is defined), runs the batch machine and the session machine of AldorSem on it and checks ReplEqBatch, SessionPrefix, "
                  "FormOutputsAlign and that a rejected form leaves the session unchanged. Every exported history is rendered form by form, "
                  "piped to a fresh `aldor -Gloop`, and the loop's output is projected on (program line | rejected step | evaluated step) "
                  "and must equal the projection of the session TLC computed; the whole file must print TLC's batch output under -Ginterp. "
                  "ReplTab.tla: sessions of ten definitions (overloads, constants, imports, Record / Union / Enumeration constants) with "
                  "rejected forms at every position that overlap the names defined so far (rejected overload, confirmed / refused "
                  "redefinition, other-type redeclaration, constant of a new structured type whose exports overlap imported names, import "
                  "of known and unknown domains); after the rejected form every meaning of the session is used and every meaning the form "
                  "tried to create is used (must be rejected); TLC checks UndoRestores / TableAsWithout / OutputAsWithout and refutes two "
                  "wrong roll-back designs; every session is replayed. ReplReader.tla: every literal content / comment text up to a length "
                  "bound over the lexical alphabets, in one-line, parenthesis-, brace- and pile-continued forms, each followed by a form of "
                  "the opposite verdict; Required must cut each session at its form ends (TLC) and the loop must produce the outputs, "
                  "rejections and evaluated steps of exactly those steps (replay).",
    "level_note": "Trusted: AldorSem.tla, the renderers (gen/render.py, gen/replhist.py, gen/replsess.py), the reading of the loop's output "
                  "(marker-prefixed lines are program output, a `#1 (Error)' group is one rejected step, the timing line is one evaluated "
                  "step). The family is gen/progen.py's programs with at most 6-8 top-level forms, without halting programs, plus the fixed "
                  "universes of ReplTab.tla and ReplReader.tla; every history starts from a fresh compiler process.",
}


# ---------------------------------------------------------------------------------------------------------
# running the real loop

CPU_LIMIT = 10     # seconds of processor time for one session (a normal one needs 0.1 - 0.5 s); independent of the machine's load


def _setarch():
    """Prefix of the loop's command line: address-space randomisation off (a fault of the loop then depends on the input
    only, not on the run) and a processor-time limit (a loop that spins is ended after CPU_LIMIT seconds of its own time)."""
    prefix = []
    exe = shutil.which("prlimit")
    if exe:
        rc, _, _, _ = vlib.run([exe, "--cpu=%d" % CPU_LIMIT, "true"], timeout=20)
        if rc == 0:
            prefix += [exe, "--cpu=%d" % CPU_LIMIT]
    exe = shutil.which("setarch")
    if exe:
        rc, _, _, _ = vlib.run([exe, "x86_64", "-R", "true"], timeout=20)
        if rc == 0:
            prefix += [exe, "x86_64", "-R"]
    return prefix


def run_loop(build, text, cwd, prefix, timeout=150, args=()):
    cmd = prefix + [build["aldor"]] + vlib.ALDOR_BASE_ARGS + list(args) + ["-Gloop"]
    rc, out, err, to = vlib.run(cmd, cwd=cwd, timeout=timeout, stdin=text.encode())
    out = out.decode(errors="replace")
    # SIGKILL / SIGXCPU without a wall-clock timeout: the processor-time limit was reached (e.g. the confirmation dialogue
    # "Redefine? (y/n): " at the end of the input never ends)
    spun = (not to) and rc in (-9, -24) and any("prlimit" in x for x in prefix)
    return {"rc": rc, "out": out[-200000:], "err": err.decode(errors="replace")[-20000:], "timeout": to, "spun": spun}


def judge(h, res):
    """Compare one run of the loop with the session Repl.tla computed for history h.  None = conforms."""
    toks, flags = replhist.loop_tokens(res["out"])
    exp = replhist.expected_tokens(h["hist"], h["out"], with_timing=flags["timing"])
    return judge_tokens(exp, res, toks, flags)


def judge_tokens(exp, res, toks=None, flags=None):
    """Compare one run of the loop with the specified projection exp (a list of ("M", line) | ("G",) | ("T",))."""
    if toks is None:
        toks, flags = replhist.loop_tokens(res["out"])
        if not flags["timing"]:
            exp = [t for t in exp if t[0] != "T"]
    if res["timeout"] or res.get("spun"):
        return ("loop-hang", "no end of session within the time bound (%s)" % ("processor time" if res.get("spun") else "wall clock"), toks, exp)
    if flags["fault"] or (res["rc"] is not None and res["rc"] < 0) or not flags["ready"]:
        return ("loop-fault", "the loop faulted (rc=%s)" % res["rc"], toks, exp)
    if flags["bad"]:
        return ("erroneous-form-executed", "text of a rejected form was printed", toks, exp)
    if [t for t in toks if t[0] == "M"] != [t for t in exp if t[0] == "M"]:
        return ("wrong-output", "program lines differ from the specified session output", toks, exp)
    if not flags["end"]:
        return ("loop-fault", "the session did not reach its last form (rc=%s)" % res["rc"], toks, exp)
    if toks != exp:
        return ("accept-reject", "the steps accepted / rejected by the loop differ from the specification", toks, exp)
    if res["rc"] != 0:
        return ("loop-fault", "exit status %s" % res["rc"], toks, exp)
    return None


def cont_harness(b):
    return vlib.harness_build("repl_cont", [os.path.join(vlib.VERIF, "harness", "repl_cont.c")], b,
                              extra=tuple(["-Wl,--start-group"] + b["libs"] + ["-Wl,--end-group"]))


def lines_phase(chk, b, name, recs, workers=8, forms=True):
    """recs: [(id, text, ends)].  TLC (ReplLines.tla) must cut every text exactly at the ends of its forms (this is what
    makes `one form = one step' true for the layouts used); the transcription of scanIsContinued is compared with the
    real function line by line (drift only)."""
    if not recs:
        return
    h = cont_harness(b)
    rc, out, err, to = vlib.run([h], stdin=replhist.harness_input([t for (_, t, _) in recs]).encode(), timeout=600)
    real = out.decode(errors="replace").split("\n")
    if rc != 0 or to or len(real) < len(recs):
        raise vlib.MachineryError("repl_cont harness failed: rc=%s %s" % (rc, err.decode(errors="replace")[-500:]))
    out_recs = []
    for i, (rid, text, ends) in enumerate(recs):
        n = text.count("\n")
        rl = [c == "1" for c in real[i]] if len(real[i]) == n and set(real[i]) <= set("01") else None
        out_recs.append(replhist.lines_record(rid, text, ends, rl))
        if rl is None:
            chk.extra.setdefault("scan_drift", []).append({"record": rid, "what": "harness gave no result: %r" % real[i][:40]})
    d = vlib.scratch("c13lines")
    path = os.path.join(d, "lines.ndjson")
    vlib.write_ndjson(path, out_recs)
    if forms:
        r = vlib.tlc("ReplLines", "ReplLines", workers=workers, env={"LINES": path}, timeout=900)
        chk.add_tlc("ReplLines[%s]" % name, r)
        if r.violated:
            raise vlib.MachineryError("ReplLines.tla: a rendered session text is not cut at the ends of its forms (%s)\n%s"
                                      % (r.violated, r.trace_text[:1500]))
    r2 = vlib.tlc("ReplLines", "ReplLinesCode", workers=workers, env={"LINES": path}, timeout=900)
    chk.add_tlc("ReplLinesCode[%s]" % name, r2)
    chk.extra["scan_lines_compared"] = chk.extra.get("scan_lines_compared", 0) + sum(len(x["lines"]) for x in out_recs if "real" in x)
    if r2.violated:
        import re
        m = re.search(r"rid = (\d+)", r2.trace_text)
        m2 = None
        for m2 in re.finditer(r"ln = (\d+)", r2.trace_text):
            pass
        rec = out_recs[int(m.group(1)) - 1] if m else None
        chk.extra.setdefault("scan_drift", []).append(
            {"record": rec["id"] if rec else None, "line": int(m2.group(1)) if m2 else None,
             "what": "scanIsContinued and its transcription in ReplLines.tla disagree on this line"})


def hist_sig(h):
    return "".join("%s%d" % (it["k"][0], it["j"]) for it in h["hist"])


# ---------------------------------------------------------------------------------------------------------

def select_programs(chk, seed, groups, rng):
    """groups: [(n, maxforms, maxbad, ncat, force)].  For every group n programs of the family (at most maxforms top-level
    forms) whose batch behaviour TLC (AldorSem, both operand orders) gives as normal termination, prepared for Repl.tla.
    One TLC run evaluates the candidates of all groups."""
    cands = []
    for gi, (n, maxforms, maxbad, ncat, force) in enumerate(groups):
        for c in replhist.small_programs(seed * 31 + gi, int(n * 1.7) + 5, maxforms=maxforms):
            m = replhist.add_markers(c)
            if m is not None:
                cands.append((gi, c, m))
    fam = progcheck.Family(chk, [m for (_, _, m) in cands], "select", workers=vlib.NCPU, timeout=900)
    progs, batch_exp = [], {}
    got = [0] * len(groups)
    for gi, c, m in cands:
        n, maxforms, maxbad, ncat, force = groups[gi]
        e = fam.exp[m["id"]]
        if e["status"] == "done" and got[gi] < n:
            q = replhist.prepare(c, rng, maxbad=maxbad, ncat=ncat, force=force)
            progs.append(q)
            batch_exp[q["id"]] = e
            got[gi] += 1
    if got != [g[0] for g in groups]:
        raise vlib.MachineryError("only %s of %s programs selected" % (got, [g[0] for g in groups]))
    return progs, batch_exp, dict(fam.status_count)


def run_family(chk, b, wd, prefix, name, progs, batch_exp, verbose_every, layouts, per_route, all_lines=False):
    d = vlib.scratch("c13progs")
    path = os.path.join(d, "progs.ndjson")
    vlib.write_ndjson(path, progs)
    r = vlib.tlc("Repl", "Repl", workers=vlib.NCPU, env={"PROGS": path}, timeout=1500)
    chk.add_tlc("Repl[%s]" % name, r)
    if r.violated:
        chk.violation("Repl.tla violates %s" % r.violated, r.trace_text, key={"model": "Repl", "inv": r.violated})
        return
    hs = [json.loads(l[5:]) for l in r.printed if isinstance(l, str) and l.startswith("HIST ")]
    byid = {p["id"]: p for p in progs}
    if os.environ.get("VERIF_C13_CORRUPT"):
        # self-test of the binding: one field of one exported history is corrupted (an output atom of the specified session
        # is changed); the replay must reject that history (see SELFTEST_NOTES)
        for h in hs:
            nums = [i for i, a in enumerate(h["out"]) if isinstance(a, dict)]
            if nums:
                h["out"][nums[0]] = {"neg": not h["out"][nums[0]]["neg"], "ds": h["out"][nums[0]]["ds"] + [7]}
                break
    # machinery consistency: the batch machine inside Repl.tla and the plain AldorSem run agree; every program has its plain history
    plain = set()
    for h in hs:
        e = batch_exp[h["id"]]
        if render.expected_text(h["bout"]) != e["out"] or h["bstatus"] != e["status"]:
            raise vlib.MachineryError("Repl.tla's batch run of %s differs from AldorSem's" % h["id"])
        if all(it["k"] == "ok" for it in h["hist"]):
            plain.add(h["id"])
    if plain != set(byid):
        raise vlib.MachineryError("Repl.tla exported no plain history for %d programs" % len(set(byid) - plain))
    chk.extra.setdefault("histories_exported", 0)
    chk.extra["histories_exported"] += len(hs)
    kinds = chk.extra.setdefault("history_items", {})
    for h in hs:
        for it in h["hist"]:
            if it["k"] == "bad":
                c = byid[h["id"]]["cat"][it["j"] - 1]
                k = "bad:" + c["c"] + ("+shadow" if c["sh"] else "")
            else:
                k = it["k"]
            kinds[k] = kinds.get(k, 0) + 1
    # --- batch route: the whole file under -Ginterp must print TLC's batch output
    jobs = []
    for p in progs:
        dd = os.path.join(wd, name + "-" + p["id"])
        os.makedirs(dd, exist_ok=True)
        with open(os.path.join(dd, "p.as"), "w") as fh:
            fh.write(replhist.batch_text(p))
        jobs.append(("batch", p, None, dd, False, "line"))
    # --- loop route: every history
    for n, h in enumerate(hs):
        p = byid[h["id"]]
        dd = os.path.join(wd, name + "-" + p["id"])
        verbose = verbose_every and (n % verbose_every == 0)
        layout = layouts[n % len(layouts)]
        jobs.append(("loop", p, h, dd, verbose, layout))

    def do(job):
        kind, p, h, dd, verbose, layout = job
        if kind == "batch":
            rc, out, err, to = vlib.aldor(b, ["-Ginterp", "p.as"], dd, timeout=120)
            return {"rc": rc, "out": out.decode(errors="replace"), "err": err.decode(errors="replace"), "phase": "interp", "timeout": to}
        text, steps, ends = replhist.render_history(p, h["hist"], verbose=verbose, layout=layout)
        res = run_loop(b, text, dd, prefix)
        v = judge(h, res)
        if v is not None and v[0] == "loop-hang" and not res["spun"]:
            res = run_loop(b, text, dd, prefix, timeout=400)      # a loaded machine is not a hang
            v = judge(h, res)
        res["text"] = text
        res["ends"] = ends
        res["verdict"] = v
        return res
    with concurrent.futures.ThreadPoolExecutor(max_workers=vlib.NCPU) as ex:
        results = list(ex.map(do, jobs))
    for job, res in zip(jobs, results):
        kind, p, h, dd, verbose, layout = job
        if kind == "batch":
            e = batch_exp[p["id"]]
            c = progcheck.classify(res, e)
            chk.case((name, p["id"], "batch"), nontrivial=len(e["out"]) > 0)
            st = per_route.setdefault("batch -Ginterp", {"runs": 0, "bad": 0})
            st["runs"] += 1
            if c is not None:
                st["bad"] += 1
                chk.violation("%s on the batch route: program %s %s" % (c[0], p["id"], c[1]),
                              {"program_id": p["id"], "kind": c[0], "expected_out": e["out"][:4000], "got_out": res["out"][:4000],
                               "got_err": res["err"][:2000], "rc": res["rc"], "source": replhist.batch_text(p)},
                              key={"kind": c[0], "sig": c[1], "route": "batch", "shapes": progcheck.shape_flags(p)})
            continue
        label = "loop" + (" verbose" if verbose else "") + ("" if layout == "line" else " " + layout)
        st = per_route.setdefault(label, {"runs": 0, "bad": 0})
        st["runs"] += 1
        nrej = sum(1 for it in h["hist"] if it["k"] != "ok")
        chk.case((name, p["id"], hist_sig(h), label), nontrivial=nrej > 0 or len(h["out"]) > 0)
        v = res["verdict"]
        if v is None:
            continue
        st["bad"] += 1
        shapes = replhist.history_shapes(p, h["hist"])
        kindv, what, toks, exp = v
        chk.violation("%s on %s: program %s history %s: %s" % (kindv, label, p["id"], hist_sig(h), what),
                      {"program_id": p["id"], "history": h["hist"], "kind": kindv, "route": label, "shapes": shapes,
                       "input": res["text"], "stdout": res["out"][-6000:], "stderr": res["err"][-1000:], "rc": res["rc"],
                       "observed_projection": toks, "specified_projection": exp, "expected_out": render.expected_text(h["out"])},
                      key={"kind": kindv, "shapes": shapes, "route": "loop", "verbose": bool(verbose), "layout": layout})
    chk.traces += len(jobs)
    lrecs = [("%s/%s/%s/%s" % (name, job[1]["id"], hist_sig(job[2]), job[5]), res["text"], res["ends"])
             for job, res in zip(jobs, results) if job[0] == "loop" and (job[5] != "line" or all_lines)]
    lines_phase(chk, b, name, lrecs)
    for p in progs[:1] + progs[-1:]:
        hh = [h for h in hs if h["id"] == p["id"] and sum(1 for it in h["hist"] if it["k"] != "ok") == p["maxbad"]]
        if hh and len(chk.samples) < 4:
            h = hh[len(hh) // 2]
            chk.sample({"history": hist_sig(h), "input": replhist.render_history(p, h["hist"])[0][-1500:],
                        "expected_out": render.expected_text(h["out"])[:300]})


def run_sessions(chk, b, wd, prefix, per_route, name, recs):
    """recs: [{"id", "text", "exp", "shapes", "label", "key", "nontrivial"}].  Every text is piped to a fresh loop and its
    projection must equal exp (specified by the TLC run the record comes from)."""
    dd = os.path.join(wd, name)
    os.makedirs(dd, exist_ok=True)

    def do(rec):
        res = run_loop(b, rec["text"], dd, prefix)
        v = judge_tokens(rec["exp"], res)
        if v is not None and v[0] == "loop-hang" and not res["spun"]:
            res = run_loop(b, rec["text"], dd, prefix, timeout=400)      # a loaded machine is not a hang
            v = judge_tokens(rec["exp"], res)
        res["verdict"] = v
        return res
    with concurrent.futures.ThreadPoolExecutor(max_workers=vlib.NCPU) as ex:
        results = list(ex.map(do, recs))
    for rec, res in zip(recs, results):
        st = per_route.setdefault(rec["label"], {"runs": 0, "bad": 0})
        st["runs"] += 1
        chk.case((name, rec["id"], rec["label"]), nontrivial=rec.get("nontrivial", True))
        v = res["verdict"]
        if v is None:
            continue
        st["bad"] += 1
        kindv, what, toks, exp = v
        key = {"kind": kindv, "route": "loop", "shapes": rec["shapes"]}
        key.update(rec.get("key", {}))
        chk.violation("%s on %s: session %s: %s" % (kindv, rec["label"], rec["id"], what),
                      {"session": rec["id"], "kind": kindv, "route": rec["label"], "shapes": rec["shapes"],
                       "input": rec["text"], "stdout": res["out"][-6000:], "stderr": res["err"][-1000:], "rc": res["rc"],
                       "observed_projection": toks, "specified_projection": exp}, key=key)
    chk.traces += len(recs)
    return results


def table_phase(chk, b, wd, prefix, per_route, tier, seed):
    """The symbol table across steps and the roll-back of a rejected step (spec/ReplTab.tla)."""
    cfgs = [("tab", replsess.tab_config(seed, tier))]
    if tier != "quick":
        cfgs.append(("tab2", replsess.tab_config_deep(seed)))
    d = vlib.scratch("c13tab")
    jobs = []
    for name, cfg in cfgs:
        path = os.path.join(d, name + ".json")
        vlib.write_ndjson(path, [cfg])
        jobs.append((name, "ReplTab", path, vlib.NCPU if tier != "quick" else 6))
    small = os.path.join(d, "small.json")
    vlib.write_ndjson(small, [dict(cfgs[0][1], orders=cfgs[0][1]["orders"][:1])])
    jobs += [("byname", "ReplTabByName", small, 2), ("retag", "ReplTabRetag", small, 2)]
    with concurrent.futures.ThreadPoolExecutor(max_workers=len(jobs)) as ex:
        rs = list(ex.map(lambda j: vlib.tlc("ReplTab", j[1], workers=j[3], env={"TABCFG": j[2]}, timeout=1500), jobs))
    sess = []
    for (name, cfgname, _, _), r in zip(jobs, rs):
        chk.add_tlc("%s[%s]" % (cfgname, name), r)
        if cfgname == "ReplTab":
            if r.violated:
                chk.violation("ReplTab.tla violates %s" % r.violated, r.trace_text, key={"model": "ReplTab", "inv": r.violated})
                continue
            got = [json.loads(l[6:]) for l in r.printed if isinstance(l, str) and l.startswith("TSESS ")]
            if not got:
                raise vlib.MachineryError("ReplTab.tla exported no session")
            sess += [(name, x) for x in got]
        elif r.violated != "TableAsWithout":
            # negative control: the wrong roll-back designs must be refuted, else the invariant says nothing
            raise vlib.MachineryError("ReplTab.tla: the wrong roll-back design %s is not refuted (%s)" % (name, r.violated))
    if os.environ.get("VERIF_C13_CORRUPT") and sess:
        # self-test of the binding: one output atom of one exported session is changed; the replay must reject that session
        for it in sess[len(sess) // 2][1]["hist"]:
            if it["ok"] and it["o"] and isinstance(it["o"][0], int):
                it["o"][0] += 1
                break
    recs, classes = [], chk.extra.setdefault("table_rejected_steps_by_overlap", {})
    for n, (name, x) in enumerate(sess):
        verbose = (n % 6 == 5)
        text, exp, shapes = replsess.render_tab(x, verbose=verbose)
        for it in x["hist"]:
            if not it["ok"]:
                classes[it["cls"]] = classes.get(it["cls"], 0) + 1
        recs.append({"id": replsess.tab_sig(x), "text": text, "exp": exp, "shapes": shapes,
                     "label": "loop table" + (" verbose" if verbose else ""), "key": {"family": "table", "verbose": verbose},
                     "nontrivial": x["nbad"] > 0})
    chk.extra["table_sessions"] = len(recs)
    if len(set(r["id"] for r in recs)) != len(recs):
        raise vlib.MachineryError("ReplTab sessions: names are not distinct")
    run_sessions(chk, b, wd, prefix, per_route, "tab", recs)
    if recs and len(chk.samples) < 6:
        r0 = recs[len(recs) // 2]
        chk.sample({"table_session": r0["id"], "input": r0["text"][-1200:], "specified_projection": [list(t) for t in r0["exp"]][-12:]})


READER_CAUSES = ("comment-must-not-be-read-as-code", "comment-with-code-characters", "escaped-newline-outside-literal",
                 "brace-definition-closed-on-indented-line")


def reader_phase(chk, b, wd, prefix, per_route, tier, seed):
    """How the loop groups its input lines into steps (spec/ReplReader.tla)."""
    d = vlib.scratch("c13rd")
    path = os.path.join(d, "reader.json")
    vlib.write_ndjson(path, [replsess.reader_config(seed, tier)])
    r = vlib.tlc("ReplReader", "ReplReader", workers=vlib.NCPU if tier != "quick" else 6, env={"READER": path}, timeout=1500)
    chk.add_tlc("ReplReader", r)
    if r.violated:
        chk.violation("ReplReader.tla violates %s" % r.violated, r.trace_text, key={"model": "ReplReader", "inv": r.violated})
        return
    sess = [json.loads(l[6:]) for l in r.printed if isinstance(l, str) and l.startswith("RSESS ")]
    if not sess:
        raise vlib.MachineryError("ReplReader.tla exported no session")
    if os.environ.get("VERIF_C13_CORRUPT"):
        # self-test of the binding: in one exported session the expectation of one form is changed from `prints' to `rejected'
        x = sorted(sess, key=lambda x: x["id"])[0]
        for e in x["exps"][1:]:
            if e["k"] == "print":
                e["k"] = "rej"
                break
    recs, lrecs = [], []
    nitems = 0
    for x in sorted(sess, key=lambda x: x["id"]):
        text, exp, npre, name = replsess.render_reader(x)
        nitems += len(x["items"])
        # a packed session is one that the known defects of the reader do not touch (the three recorded findings show in
        # single-item sessions only): its violations are never excused by them
        shapes = sorted(t for t in x["tags"] if not (x["packed"] and t in READER_CAUSES))
        recs.append({"id": name, "text": text, "exp": exp, "shapes": shapes,
                     "label": "loop reader" + (" packed" if x["packed"] else " single"), "key": {"family": "reader"},
                     "nontrivial": True})
        # the transcription of scanIsContinued against the real function on the lines of the session proper (drift only):
        # they are expected to be cut where the transcription cut them
        body = "".join(l + "\n" for l in text.split("\n")[npre:-2])
        lrecs.append(("reader/%s" % name, body, list(x["pcuts"])))
    chk.extra["reader_sessions"] = {"packed": sum(1 for x in sess if x["packed"]), "single": sum(1 for x in sess if not x["packed"]),
                                    "items": nitems}
    if len(set(r_["id"] for r_ in recs)) != len(recs):
        raise vlib.MachineryError("ReplReader sessions: names are not distinct")
    run_sessions(chk, b, wd, prefix, per_route, "reader", recs)
    lines_phase(chk, b, "reader", lrecs, workers=4, forms=False)
    if recs and len(chk.samples) < 6:
        r0 = recs[0]
        chk.sample({"reader_session": r0["id"], "input": r0["text"][-900:], "specified_projection": [list(t) for t in r0["exp"]][-10:]})


ECHO_SESSION = """#include "axllib"
SI ==> SingleInteger;
import from SI, String;
print << "@@READY" << newline;
x: SI := 3@SI;
print << "@@ " << x << newline;
print << "@@END" << newline;
"""


def fixed_histories(chk, b, wd, prefix, per_route):
    """Hand-written sessions kept as regressions of recorded findings."""
    # the loop's default value echo writes to `stdout'; with a library that has no such name (axllib) the echo of the
    # first value does not type check.  Required: a diagnostic at most, and the session goes on.
    res = run_loop(b, ECHO_SESSION, wd, prefix)
    toks, flags = replhist.loop_tokens(res["out"])
    st = per_route.setdefault("fixed", {"runs": 0, "bad": 0})
    st["runs"] += 1
    chk.case(("fixed", "echo-without-stdout"))
    chk.traces += 1
    if flags["fault"] or res["timeout"] or not flags["end"] or (res["rc"] or 0) < 0:
        st["bad"] += 1
        chk.violation("loop-fault in the fixed session echo-without-stdout: the loop faulted after the diagnostic of the value echo",
                      {"input": ECHO_SESSION, "stdout": res["out"][-3000:], "rc": res["rc"]},
                      key={"kind": "loop-fault", "fixed": "echo-without-stdout", "route": "loop"})


def run(chk, tier):
    import time
    t0 = time.time()
    phases = chk.extra.setdefault("phase_wall_s", {})

    def mark(name):
        phases[name] = round(time.time() - t0 - sum(phases.values()), 1)
    b = vlib.vbuild()
    wd = vlib.scratch("c13")
    # the shared build cache keeps few entries: run a private copy of the executable
    b = dict(b)
    exe = os.path.join(wd, "aldor-under-test")
    shutil.copy2(b["aldor"], exe)
    b["aldor"] = exe
    prefix = _setarch()
    rng = random.Random(chk.seed)
    per_route = {}
    seed = chk.seed % 1000003
    # 1. where the loop cuts its input: every sequence of <= 3 forms over the layout shapes (exhaustive)
    shapes = replhist.shape_sequences(3 if tier == "quick" else 4)
    lines_phase(chk, b, "shapes", shapes, workers=vlib.NCPU)
    chk.extra["layout_shape_sequences"] = len(shapes)
    for rid, _, _ in shapes:
        chk.case(("shapes", rid))
    mark("shapes")
    # 1b. the roll-back of a rejected step (implementation-shaped model): the repaired design must keep the session usable;
    #     the design as written is expected to have the counterexample that the replay reproduces (recorded, not judged)
    r = vlib.tlc("ReplUndo", "ReplUndoFixed", workers=4, timeout=300)
    chk.add_tlc("ReplUndoFixed", r)
    if r.violated:
        chk.violation("ReplUndo.tla (repaired roll-back) violates %s" % r.violated, r.trace_text, key={"model": "ReplUndo", "inv": r.violated})
    r = vlib.tlc("ReplUndo", "ReplUndoAsWritten", workers=4, timeout=300)
    chk.add_tlc("ReplUndoAsWritten", r)
    import re
    logs = re.findall(r"log = (<<.*>>)", r.trace_text or "")
    chk.extra["undo_model_as_written"] = {"violates": r.violated, "counterexample": logs[-1] if logs else None,
                                          "note": "implementation-shaped; corresponds to the history shape declaring-error-then-parse-error"}
    mark("undo-model")
    # 2. histories
    mixed = ["line", "braces", "line", "piled", "line", "paren", "line"]
    if tier == "quick":
        # (programs, max top-level forms, maxbad, catalogue entries drawn (None = all), forced catalogue kinds)
        groups = [(10, 6, 1, None, ()), (3, 5, 2, 3, ("syntax", "shadow"))]
        vev, layouts = 5, mixed
    else:
        groups = [(110, 8, 1, None, ()), (20, 6, 2, 5, ("syntax", "shadow")), (2, 3, 2, None, ())]
        vev, layouts = 4, ["line", "braces", "piled", "paren", "line"]
    progs, batch_exp, stats = select_programs(chk, seed, groups, rng)
    mark("select")
    run_family(chk, b, wd, prefix, "hist", progs, batch_exp, vev, layouts, per_route)
    mark("histories")
    # 3. the symbol table across steps: rejected forms that overlap names the session already has (ReplTab.tla)
    table_phase(chk, b, wd, prefix, per_route, tier, seed)
    mark("table")
    # 4. the reader: grouping of input lines into steps (ReplReader.tla)
    reader_phase(chk, b, wd, prefix, per_route, tier, seed)
    mark("reader")
    # 5. fixed sessions
    fixed_histories(chk, b, wd, prefix, per_route)
    chk.extra["candidate_programs_by_status"] = stats
    chk.extra["routes"] = per_route
    chk.extra["aslr_off"] = "setarch" in " ".join(prefix)
    chk.extra["cpu_limit_s"] = CPU_LIMIT if "prlimit" in " ".join(prefix) else None
    chk.extra.setdefault("scan_drift", [])
    chk.rule = ("programs of gen/progen.py with few top-level forms (definitions, assignments, loops, output statements), each evaluated "
                "by TLC; for each, TLC (Repl.tla) enumerates every interleaving of its forms in order with <= maxbad erroneous forms "
                "(full catalogue with maxbad = 1, a drawn part of it with maxbad = 2) at every position; each history is rendered in one "
                "of the layouts line / braces / piled / paren and in the loop's verbose or quiet mode; a case is (program, history, route); "
                "non-trivial = the history has a rejected form or the session prints something.  Separately every sequence of <= 3 (4) forms "
                "over 11 layout shapes is cut into steps by ReplLines.tla (exhaustive) and by the real scanIsContinued.  ReplTab.tla: for "
                "each order of its 10 definitions (1 per quick run, drawn by the seed; 4 in thorough) every session with one catalogue form "
                "(17) at every position, uses directly after it or after the next definition (thorough: also two rejected forms per session, "
                "8 catalogue forms); a case is one session.  ReplReader.tla: every item of its shapes with literal contents of <= 2 (3) atoms "
                "out of 13 and comment texts of <= 2 (3) atoms out of 9 (exhaustive within the bound); items are packed 12 to a session "
                "(rotation by the seed) unless the transcription of scanIsContinued predicts a departure; a case is one session")
    chk.exhaustive = False
    chk.assumptions += ["every history starts in a fresh compiler process; the preamble (#include, macros, imports, one constant) is not "
                        "part of the history", "the loop is run with address-space randomisation off so that a fault depends on the input only",
                        "only order-independent, normally terminating programs are replayed",
                        "a piled definition is typed with a closing comment line in column 1 (the loop reads the first unindented line "
                        "together with the definition)",
                        "ReplReader: forms announce their continuation lexically (open bracket, open literal, escaped newline, `==' at the "
                        "end of the line); a form continued only by the indentation of its next line (e.g. after a trailing operator) is not "
                        "typed into a line-at-a-time reader and is not in the family; no literal contains a raw newline",
                        "ReplTab: a definition of a (name, signature) the session already has is answered by the loop's `Redefine? (y/n)' "
                        "question; the session text carries the answer on the next line; accepted redefinitions are outside the property "
                        "(a file has no redefinition) and not generated"]


def replay(d):
    """bin/verif replay C13 <file>: pipe the recorded session into the loop built from the working tree again and compare its
    projection with the recorded specified projection (which came from the TLC run of the reporting check)."""
    det = d.get("detail")
    if not isinstance(det, dict) or "input" not in det or "specified_projection" not in det:
        return 0
    b = vlib.vbuild()
    wd = vlib.scratch("c13replay")
    res = run_loop(b, det["input"], wd, _setarch())
    v = judge_tokens([tuple(t) for t in det["specified_projection"]], res)
    print(res["out"][-4000:])
    if v is None:
        print("REPLAY: the session now conforms to the specified projection")
        return 0
    print("REPLAY: %s: %s" % (v[0], v[1]))
    print("observed : %s" % (v[2],))
    print("specified: %s" % (v[3],))
    return 1


SELFTEST_NOTES = """
Binding demonstration (2026-10-04, quick tier, VERIF_SEED default, scratch worktrees /tmp/wt-c13m* of /repo, removed afterwards;
the machine was shared with ~10 other builders, load average 150-200, so wall times are 2-4x the idle ones).

Unchanged tree: `bin/verif check C13 --tier quick` exit 0 with VERIF_SEED = default, 7, 4242 (KNOWN-FINDING lines only).

Mutations (one line each, all compile), all reported VIOLATION:
  M1 scobind.c  scobindRestore: `if (scoUndoState) scobindUndo();` -> `if (0 && ...)` (no roll-back after a rejected step)
       34 violations: wrong-output / accept-reject in histories where an ill-typed definition of a program name precedes
       the program's own definition (shape bad:vartype+shadow), e.g. history b2o1o2o3o4b1o5.
  M2 axlcomp.c  compGLoopEval: the per-step `comsgFini(); comsgInit();` removed (error count not reset between steps)
       893 violations (every history with a rejected form: all later forms are skipped, or the loop faults).
  M3 scan.c     scanIsContinued: `case ')':` removed (a closing parenthesis no longer ends a continuation)
       893 violations (loop-fault / accept-reject: forms are glued together); additionally recorded as scan_drift by
       ReplLinesCode.cfg (record `stmt`, line 1): the transcription of scanIsContinued and the code disagree.
  M4 fint.c     shDataObjAdd: globals of the loop's unit (id "-_...") are not looked up in earlier steps
       789 violations (values defined in one step are not seen by the next: wrong-output / loop-fault).
  M5 scobind.c  scobindSave: scope information is freed after every step instead of being kept for the loop
       190 violations.
Corrupted field: VERIF_C13_CORRUPT=1 changes one output atom of one exported history (sign flipped, a digit appended):
  exactly that history is rejected (`wrong-output on loop verbose: program r8089264_13 history o1b1o2o3o4`), exit 1.
Candidate repairs (hooks/fix-C13-undo-step.diff, fix-C13-undo-no-free.diff, fix-C13-echo-wrap-error.diff applied together in a
  worktree): the quick tier then reports 3 violations, all of shape redeclares-defined-name (the second meaning of a re-declared
  variable still leaks: `There are 2 meanings for the operator`), no fault, no hang; the fixed session echo-without-stdout passes.
Not a finding (harness corrected instead): (1) a program form entered early that *assigns* the missing name is accepted by the
  compiler (assignment declares) -> such forms are no longer offered as erroneous (field `must`); (2) a read inside a macro argument
  may vanish with the expansion -> not counted in `must`; (3) the messages of one step are numbered, not ordered, by number ->
  rejected steps are counted by messages numbered 1; (4) an ill-typed re-definition of a function the session already has is
  answered by the dialogue `Redefine? (y/n)` (fintYesOrNo), not by a rejection -> not offered (Repl.tla Offered); at end of input
  that dialogue loops forever (getchar() == EOF is not handled) -- outside this property, not recorded.
Later the same day the lead committed the three repairs to /repo (c1de492 undo step, a360ba4 undo no free, 8531fab echo wrap):
  the corresponding findings are `fixed` in known_findings.jsonl; quick exits 0 with VERIF_SEED = default, 7, 99, 4242 (53-75 s);
  the only KNOWN-FINDING left is the leak of the second meaning after a rejected re-declaration (shape redeclares-defined-name; it
  shows when a later form uses the variable inside an if-branch, so seeds whose programs have no such use print no line).
Strengthening (2026-10-04, later): ReplTab.tla (symbol table across steps, roll-back as an action) and ReplReader.tla (required grouping
of input lines into steps), gen/replsess.py, phases `table' and `reader' of this file.
  Unchanged tree: quick exit 0 with VERIF_SEED = default, 1, 2, 3 (90-110 s at load average 50-200; the two new phases take 12 s + 11 s
  when the machine is idle enough); thorough 31 min at load average 150-220 (table 5412 sessions, reader 852 sessions / 3555 items).
  Seeded changes (bin/seedtest): C13-1 (isChecked reset moved) caught by the histories of Repl.tla as before (1115), by 243 table sessions
  (the definition or use that follows a rejected form) and 34 reader sessions; C13-2 (scoUndoStabEntry drops the whole entry) caught by 120 table sessions (45 overload-of-existing-name, 75
  new-structured-type-overlapping-imports: `<<' / `f' lost after the roll-back); C13-3 (escape inside a literal never reset) caught by 14
  packed reader sessions (every literal with `_').
  Own mutations (scratch worktree /tmp/wt-c13s, removed), quick tier, all VIOLATION:
    MA scan.c scanIsContinued: `case '_'' inside a string literal removed (`_"' ends the literal): 7 reader sessions.
    MB scobind.c scoUndoStabLevel: `tblRemoveIf(stabLev->tbl, ...)' disabled (meanings of a rejected step stay in the table): 174 table
       sessions (loop-fault: the stale meanings are used) + 112 histories of Repl.tla.
    MC scobind.c scobindSetSigUse: the answer to `Redefine?' inverted: 34 table sessions (refused redefinitions take effect).
  Negative controls inside TLC: ReplTabByName.cfg / ReplTabRetag.cfg (wrong roll-back designs) must violate TableAsWithout, else the
  run is a machinery error.  Corrupted field: VERIF_C13_CORRUPT=1 additionally changes one output atom of one table session and one
  expectation (`prints' -> `rejected') of one reader session: exactly those two sessions are reported.
  Candidate repairs applied together in a worktree (hooks/fix-C13-reader-comments.diff, -reader-escaped-newline.diff,
  -reader-brace-definition.diff): all 184 reader sessions conform (the transcription in ReplScan.tla then differs from the code: drift).
  hooks/fix-C13-refused-redefinition-keeps-record.diff: the hand sessions of that finding behave as specified.
  Not a finding (family / harness corrected instead): (1) `print << {1@SI +' / `2@SI} << newline' is a syntax error in a piled file too:
  brace *expressions* across lines are not in the family (brace blocks are); (2) a `++' comment behind a statement gives a warning
  (documentation without identifier): only `--' comments are generated, Required knows both; (3) after a rejected overload f: Boolean -> SI
  the diagnostic of a later call f(true) changes its wording (`No one possible return type...' instead of `Argument 1 of f did not
  match'): the form is rejected in both sessions, wording is not part of the property; (4) a form continued only by indentation after a
  trailing operator (`1 +' / `   2') is cut by the line-at-a-time reader: stated as a family assumption, not reported; the line itself
  is in the family as a rejected form (`trailop') that must not swallow its successor; (5) reader sessions are packed 12 items to a
  session, so a cause tag of a recorded finding never excuses a packed session (READER_CAUSES).
TLC -coverage cannot be used with Repl.tla (the cost-model construction does not terminate on AldorSem's nested operators);
  non-vacuity is shown by the exported history items per kind (evidence: history_items).
"""
