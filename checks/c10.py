"""C10 -- The storage manager never hands out or reclaims live memory.

Decided by TLC on explicit TLA+ modules:
  spec/StoreAbs.tla    the property (Disjoint, AlignedAll, SizeOk, ContentPreserved, Reach <= survivors, audit)
  spec/StoreAbsMC.tla  exhaustive small configuration of it (non-vacuity through -coverage 1)
  spec/StoreImpl.tla   implementation-shaped model of store.c, checked to refine StoreAbs
  spec/StoreGen.tla    exports every short operation history (technique B: replay)
  spec/TraceStore.tla  validates every trace recorded from the real allocator (technique C)
  spec/StoreTree.tla   the allocator's own housekeeping: the free tree (btree.c inside store.c) with its node and
                       carrier pools carved from housekeeping pages, refining the map StoreImpl assumes;
                       exhaustive at small constants
  spec/StoreTreeGen.tla  behaviours of it at the REAL constants (MixedBTreeT = 16, 5 nodes / 256 carriers per page):
                       hundreds of distinct free sizes, freed / re-allocated / merged in several orders; exported
                       and replayed into the real allocator (gen/store_scale.py)
  spec/StoreSect.tla   the arithmetic of a fresh section for a large request; exports every request size within
                       two quanta of each page-count boundary, replayed as requests served from fresh sections
Bound to the code by harness/store_drv.c, linked with the objects built from /repo's working tree.
"""
import json
import os
import shutil
import subprocess
import sys
import time
from concurrent.futures import ThreadPoolExecutor

import vlib

sys.path.insert(0, os.path.join(vlib.VERIF, "gen"))
import store_scripts  # noqa: E402
import store_scale  # noqa: E402

META = {
    "title": "The storage manager never hands out or reclaims live memory",
    "level": "model_checking",
    "technique": "TLC: exhaustive model of the property (StoreAbs) and of store.c's algorithms refining it (StoreImpl, with the "
                 "collections that start inside an operation; StoreTree: the free tree and its node / carrier pools); "
                 "every short history exported by TLC replayed into the real allocator, long random histories, and "
                 "behaviours exported at the real constants (hundreds of distinct free sizes; every request size next to a "
                 "page-count boundary; every modelled situation of a nested collection), "
                 "all validated as behaviours of StoreAbs by TLC (TraceStore)",
    "design_ref": "DESIGN.md §3.4, §5 C10, Appendix A, D",
    "level_text": "explicit-state model checking of the specification at small constants; the implementation is bound by "
                  "trace validation of replayed and random histories (not a proof about the C code)",
    "level_note": "placement predictions of StoreImpl are drift information only",
}

HARNESS = os.path.join(vlib.VERIF, "harness", "store_drv.c")
PAR = max(2, min(16, vlib.NCPU))

MC_ACTIONS = ["DoAlloc", "DoFree", "DoResize", "DoRecode", "DoFill", "DoWrite", "SetRoot", "DoCollect", "Audit"]


# --------------------------------------------------------------------------- helpers

def _run_drv(drv, args, timeout, env=None):
    e = dict(os.environ)
    e.pop("GC_FRUGAL", None)
    e.pop("GC_DETAIL", None)
    if env:
        e.update(env)
    try:
        p = subprocess.run([drv] + [str(a) for a in args], stdout=subprocess.PIPE, stderr=subprocess.PIPE,
                           timeout=timeout, env=e)
        return p.returncode, p.stderr.decode(errors="replace")[-2000:], False
    except subprocess.TimeoutExpired:
        return None, "", True


def _close_trace(path, rc, timed_out):
    """A driver that was killed (timeout or a signal it could not report) leaves a trace without its
    last word; say so in the trace, so that it is TLC which refuses it."""
    if timed_out:
        with open(path, "a") as fh:
            fh.write('{"ev":"Hang"}\n')
    elif rc not in (0, 3):
        lines = []
        try:
            with open(path, "rb") as fh:
                fh.seek(max(0, os.path.getsize(path) - 400))
                lines = fh.read().splitlines()
        except OSError:
            pass
        if not lines or b'"Fault"' not in lines[-1]:
            with open(path, "a") as fh:
                fh.write('{"ev":"Fault","sig":%d,"during":"driver exit %s"}\n' % (-rc if (rc or 0) < 0 else 0, rc))


def _validate(path, timeout=1500, cfg="TraceStore"):
    """TLC on TraceStore with the trace; returns (verdict, index, why, result)."""
    r = vlib.tlc("TraceStore", cfg, workers=1, timeout=timeout, xmx="3g", env={"TRACE": path})
    if r.error or r.violated:
        return "error", None, (r.error or ("TraceStore invariant %s violated" % r.violated)), r
    for line in reversed(r.printed):
        if isinstance(line, str) and line.startswith("ACCEPTED "):
            return "accepted", int(line.split()[1]), "", r
        if isinstance(line, str) and line.startswith("REJECTED "):
            parts = line.split(" ", 2)
            return "rejected", int(parts[1]), parts[2] if len(parts) > 2 else "", r
    return "error", None, "TraceStore printed neither ACCEPTED nor REJECTED:\n" + r.out[-1500:], r


def _read_events(path, lo, hi):
    out = []
    with open(path) as fh:
        for i, line in enumerate(fh, 1):
            if i >= lo:
                out.append(line.rstrip("\n"))
            if i >= hi:
                break
    return out


def _why_kind(why):
    return why.split(":")[0].strip() if why else "unknown"


# --------------------------------------------------------------------------- (A) the models

SHAPE_LABELS = ["fixed:new-section", "fixed:free-list", "mixed:tree-split", "mixed:tree-exact",
                "mixed:new-frontier-split", "mixed:new-frontier-consume", "mixed:frontier-split",
                "mixed:frontier-consume", "mixed:frontier-discard+new-frontier-split",
                "mixed:frontier-discard+new-frontier-consume", "resize:same", "resize:move", "free:fixed",
                "free:mixed-merge-none", "free:mixed-merge-next", "free:mixed-merge-prev", "free:mixed-merge-both",
                "collect:all-reclaimed", "collect:fixed-section-returned", "collect:mixed-section-returned"]
GRAPH_LABELS = ["collect:nothing-reclaimed", "collect:some-reclaimed-some-kept", "recode", "write", "setroot"]


def _probe(work, label, base):
    """Is a step with this sub-case label reachable in StoreImpl?  (TLC must violate ProbeInv.)"""
    cfg = open(os.path.join(vlib.SPEC, base + ".cfg")).read()
    cfg = cfg.replace('Probe = "none"', 'Probe = "%s"' % label)
    cfg = cfg.replace("INVARIANTS AuditInv AbsInv ClientOk", "INVARIANT ProbeInv")
    cfg = cfg.replace("PROPERTY Refines\n", "").replace("VIEW View\n", "")
    path = os.path.join(work, "probe-%s.cfg" % "".join(ch if ch.isalnum() else "_" for ch in label))
    with open(path, "w") as fh:
        fh.write(cfg)
    r = vlib.tlc("StoreImpl", path, workers=2, timeout=900, xmx="4g")
    return label, r


def model_runs(tier, work):
    """All TLC runs on the models (no trace involved).  Runs in its own thread; returns the raw results,
    which model_apply() books into the Check object in the main thread."""
    if tier == "quick":
        runs = [("StoreAbsMC", "StoreAbsMCQ", True, 900, 6, "abs")]              # heap 6, <= 2 live, sizes 1..2
    else:
        runs = [("StoreAbsMC", "StoreAbsMC", True, 900, 6, "abs"),                # heap 6, <= 2 live, sizes 1..3
                ("StoreAbsMC", "StoreAbsMCDeep", False, 1700, 6, "abs")]          # heap 6, <= 3 live
    # the free tree with its pools: every history over 5 sizes (T = 2, 2 nodes / 2 carriers per page) ...
    runs.append(("StoreTree", "StoreTreeQ" if tier == "quick" else "StoreTreeDeep", False, 1700, 4 if tier == "quick" else 8, "tree"))
    # ... and scenario behaviours at the same small constants that reach trees of height 3 and 4
    runs.append(("StoreTreeGen", "StoreTreeGenSmall", False, 900, 4, "treegen"))
    runs.append(("StoreImpl", "StoreImplQ", False, 900, 4, "impl"))            # pointers/roots/recode, 4 operations
    runs.append(("StoreImpl", "StoreImplShapeQ", False, 900, 4, "impl"))       # alloc/free/resize/collect, 5 operations
    if tier == "thorough":
        runs.append(("StoreImpl", "StoreImpl", False, 1700, 6, "impl"))            # 5 operations
        runs.append(("StoreImpl", "StoreImplShape", False, 1700, 4, "impl"))       # 6 operations
        runs.append(("StoreImpl", "StoreImplShapeDeep", False, 1700, 6, "impl"))   # 8 operations

    def one(run):
        mod, cfg, cov, to, w, kind = run
        return run, vlib.tlc(mod, cfg, workers=w, coverage=cov, timeout=to, xmx="6g")

    with ThreadPoolExecutor(max_workers=4) as ex:
        fut_runs = [ex.submit(one, r) for r in runs]
        fut_probes = [ex.submit(_probe, work, lab, "StoreImplShape") for lab in SHAPE_LABELS] + \
                     [ex.submit(_probe, work, lab, "StoreImplQ") for lab in GRAPH_LABELS]
        results = [f.result() for f in fut_runs]
        probes = [f.result() for f in fut_probes]
    return results, probes


def model_apply(chk, results, probes):
    for (mod, cfg, cov, to, w, kind), r in results:
        chk.add_tlc(cfg, r)
        if r.violated:
            which = {"abs": "property-level model StoreAbs", "impl": "implementation-shaped model StoreImpl",
                     "tree": "housekeeping model StoreTree", "treegen": "housekeeping model StoreTree (scenario behaviours)"}[kind]
            chk.violation("the %s violates %s" % (which, r.violated), r.trace_text, key={"model": cfg, "inv": r.violated})
        elif kind == "tree" and r.distinct < 10000:
            raise vlib.MachineryError("%s: only %d distinct states (vacuous model)" % (cfg, r.distinct))
        elif kind == "treegen":
            recs = store_scale.records(r.printed)
            got = set()
            for rec in recs:
                got |= set(rec["labels"])
            missing = [g for g in TREE_LABELS if g not in got]
            if not recs or missing:
                raise vlib.MachineryError("%s: sub-cases of the free tree never taken (vacuous model): %s" % (cfg, missing))
            chk.extra["storetree_subcases_reached"] = TREE_LABELS
        if cov:
            missing = [a for a in MC_ACTIONS if r.coverage.get(a, (0, 0))[1] == 0]
            if missing:
                raise vlib.MachineryError("%s: actions never taken (vacuous model): %s" % (cfg, missing))
    unreached = []
    for label, r in probes:
        if r.error:
            raise vlib.MachineryError("StoreImpl probe %s: %s" % (label, r.error))
        chk.states += r.distinct
        chk.transitions += r.states
        if r.violated != "ProbeInv":
            unreached.append(label)
    if unreached:
        raise vlib.MachineryError("StoreImpl: sub-cases never taken within the bounds (vacuous model): %s" % unreached)
    chk.extra["storeimpl_subcases_reached"] = SHAPE_LABELS + GRAPH_LABELS


# --------------------------------------------------------------------------- (B) replay

def export_histories(chk, cfg, timeout):
    r = vlib.tlc("StoreGen", cfg, workers=PAR, timeout=timeout)
    chk.add_tlc(cfg, r)
    if r.violated:
        chk.violation("StoreGen (StoreAbs over symbolic addresses) violates %s" % r.violated, r.trace_text,
                      key={"model": cfg, "inv": r.violated})
    hs = [p for p in r.printed if isinstance(p, str) and p.startswith("[[")]
    if not hs:
        raise vlib.MachineryError("%s exported no history" % cfg)
    hs.sort()
    return hs


def replay_histories(chk, drv, work, tier):
    if tier == "quick":
        plan = [("StoreGenShape4", "shape", 3, False, 300), ("StoreGenShape5", "shape", 1, False, 300),
                ("StoreGenGraph4", "graph", 1, True, 300)]
    else:
        plan = [("StoreGenShape4", "shape", 8, False, 300), ("StoreGenShape6", "shape", 1, False, 900),
                ("StoreGenGraph5", "graph", 1, True, 900)]
        # (StoreGenGraph6.cfg -- 280 468 histories of 6 operations over one size class -- is available for longer runs)
    scripts = []   # (text, key)
    nh = 0
    off = chk.seed % 9973
    for cfg, kind, per, endc, to in plan:
        hs = export_histories(chk, cfg, to)
        nh += len(hs)
        assign = store_scripts.shape_assignments() if kind == "shape" else store_scripts.graph_assignments()
        texts, keys = store_scripts.build(hs, assign, per, offset=off, end_collect=endc)
        for t, (i, sizes) in zip(texts, keys):
            scripts.append((t, (cfg, hs[i], sizes)))
        if len(chk.samples) < 3:
            chk.sample({"replayed_history": hs[len(hs) // 2], "sizes": list(keys[len(keys) // 2][1]), "from": cfg})
    # shards: script k goes to shard k % nshard; shard parity decides the gc mode
    nshard = PAR
    shard_scripts = [[] for _ in range(nshard)]
    for k, s in enumerate(scripts):
        shard_scripts[k % nshard].append(s)
    jobs = []
    for sh in range(nshard):
        sp = os.path.join(work, "scripts-%d.txt" % sh)
        with open(sp, "w") as fh:
            fh.write("".join(t for t, _ in shard_scripts[sh]))
        jobs.append(("replay", sh, sp, os.path.join(work, "replay-%d.ndjson" % sh), (sh // 2) % 2))
    # the same scripts once more, all in one heap per shard (no fresh process per script)
    for sh in range(0, nshard, 4 if tier == "quick" else 2):
        sp = os.path.join(work, "scripts-%d.txt" % sh)
        jobs.append(("chain", sh, sp, os.path.join(work, "chain-%d.ndjson" % sh), (sh // 4) % 2))

    def one(job):
        mode, sh, sp, tp, gc = job
        rc, err, to = _run_drv(drv, [mode, sp, tp, gc], timeout=600 if tier == "quick" else 1700)
        _close_trace(tp, rc, to)
        if rc == 2:
            return job, ("error", None, "driver usage/IO error: " + err, None)
        return job, _validate(tp)

    with ThreadPoolExecutor(max_workers=PAR) as ex:
        results = list(ex.map(one, jobs))
    nscripts_run = 0
    for (mode, sh, sp, tp, gc), (verdict, idx, why, r) in results:
        if verdict == "error":
            raise vlib.MachineryError("replay shard %s/%d: %s" % (mode, sh, why))
        chk.states += r.distinct
        chk.transitions += r.states
        nscripts_run += len(shard_scripts[sh])
        if verdict == "accepted":
            continue
        # which script was it?  count Reset events before idx (replay) -- for chain mode report the index
        ev = _read_events(tp, max(1, idx - 12), idx)
        which = None
        if mode == "replay":
            n = 0
            with open(tp) as fh:
                for i, line in enumerate(fh, 1):
                    if i >= idx:
                        break
                    if line.startswith('{"ev":"Reset"'):
                        n += 1
            which = shard_scripts[sh][n] if n < len(shard_scripts[sh]) else None
        key = {"mode": mode, "gc": gc, "why": _why_kind(why)}
        detail = {"why": why, "event_index": idx, "events": ev, "shard": sh}
        if which:
            key.update({"history": which[1][1], "sizes": list(which[1][2])})
            detail["script"] = which[0]
            # confirm with a fresh run of that script alone
            sp1 = os.path.join(work, "confirm-%d.txt" % sh)
            tp1 = os.path.join(work, "confirm-%d.ndjson" % sh)
            with open(sp1, "w") as fh:
                fh.write(which[0])
            rc, err, to = _run_drv(drv, ["replay", sp1, tp1, gc], timeout=120)
            _close_trace(tp1, rc, to)
            v2 = _validate(tp1)
            detail["confirmed_alone"] = v2[0] == "rejected"
            if v2[0] == "rejected":
                detail["events_alone"] = _read_events(tp1, 1, v2[1])
        chk.violation("replayed history is not a behaviour of StoreAbs: %s" % why, detail, key=key)
    for t, key in scripts:
        chk.case(("replay",) + (key[0], key[1], tuple(key[2])), nontrivial=True)
    chk.traces += len(scripts) + sum(len(shard_scripts[j[1]]) for j in jobs if j[0] == "chain")
    chk.extra["replay"] = {"abstract_histories": nh, "concrete_scripts": len(scripts),
                           "chained_shards": sum(1 for j in jobs if j[0] == "chain")}


# --------------------------------------------------------------------------- (C) random histories

def trace_stats(path):
    st = {"events": 0, "collects": 0, "implicit_collects": 0, "reclaimed": 0, "collects_with_survivors_and_reclaims": 0,
          "sizes": set(), "max_page": 0, "ops": {}}
    live = set()
    with open(path) as fh:
        for line in fh:
            try:
                e = json.loads(line)
            except ValueError:
                continue
            st["events"] += 1
            k = e.get("ev")
            st["ops"][k] = st["ops"].get(k, 0) + 1
            if k == "Alloc":
                live.add((e["pg"], e["off"]))
                st["sizes"].add(e["size"])
                st["max_page"] = max(st["max_page"], e["pg"])
            elif k == "Free":
                live.discard((e["pg"], e["off"]))
            elif k == "Resize":
                live.discard((e["pg"], e["off"]))
                live.add((e["npg"], e["noff"]))
                st["sizes"].add(e["size"])
                st["max_page"] = max(st["max_page"], e["npg"])
            elif k == "Collect":
                s = set((x[0], x[1]) for x in e["surv"])
                gone = len(live - s)
                st["collects"] += 1
                st["implicit_collects"] += 1 if e.get("implicit") else 0
                st["reclaimed"] += gone
                if gone and s:
                    st["collects_with_survivors_and_reclaims"] += 1
                live = s
    return st


def random_histories(chk, drv, work, tier):
    if tier == "quick":
        nhist, steps = 8, 10000
    else:
        nhist, steps = 16, 100000
    jobs = []
    for i in range(nhist):
        seed = (chk.seed * 1000003 + i * 7919) % (2 ** 31)
        gc = i % 2
        profile = (i // 2) % 3
        frugal = tier == "thorough" and (i // 6) % 2 == 1
        jobs.append({"i": i, "seed": seed, "steps": steps, "gc": gc, "profile": profile, "maxlive": 48,
                     "frugal": frugal, "trace": os.path.join(work, "random-%d.ndjson" % i)})

    def drive(j, path):
        rc, err, to = _run_drv(drv, ["random", j["seed"], j["steps"], path, j["gc"], j["maxlive"], j["profile"]],
                               timeout=300 if tier == "quick" else 1200, env={"GC_FRUGAL": "1"} if j["frugal"] else None)
        _close_trace(path, rc, to)
        return rc, err

    def one(j):
        rc, err = drive(j, j["trace"])
        if rc == 2:
            return j, ("error", None, "driver usage/IO error: " + err, None)
        return j, _validate(j["trace"])

    with ThreadPoolExecutor(max_workers=PAR) as ex:
        results = list(ex.map(one, jobs))
    tot = {"events": 0, "collects": 0, "implicit_collects": 0, "reclaimed": 0, "collects_with_survivors_and_reclaims": 0,
           "distinct_block_sizes": set(), "max_page": 0}
    for j, (verdict, idx, why, r) in results:
        if verdict == "error":
            raise vlib.MachineryError("random history %d: %s" % (j["i"], why))
        chk.states += r.distinct
        chk.transitions += r.states
        chk.traces += 1
        st = trace_stats(j["trace"])
        for k in ("events", "collects", "implicit_collects", "reclaimed", "collects_with_survivors_and_reclaims"):
            tot[k] += st[k]
        tot["distinct_block_sizes"] |= st["sizes"]
        tot["max_page"] = max(tot["max_page"], st["max_page"])
        chk.case(("random", j["seed"], j["gc"], j["profile"], j["frugal"]), nontrivial=st["collects"] > 0)
        if len(chk.samples) < 6:
            chk.sample({"random_history": {k: j[k] for k in ("seed", "steps", "gc", "profile", "frugal")},
                        "verdict": verdict, "events": st["events"], "ops": st["ops"]})
        if verdict == "accepted":
            continue
        # repeat the same seed: report only what repeats
        p2 = j["trace"] + ".again"
        drive(j, p2)
        v2 = _validate(p2)
        ev = _read_events(j["trace"], max(1, idx - 12), idx)
        key = {"mode": "random", "gc": j["gc"], "profile": j["profile"], "why": _why_kind(why), "seed": j["seed"]}
        detail = {"why": why, "event_index": idx, "events": ev, "job": {k: j[k] for k in j if k != "trace"},
                  "rerun": list(v2[:3])}
        if v2[0] != "rejected":
            raise vlib.MachineryError("random history %d (seed %d) was rejected (%s) but its re-run was %s: flaky harness"
                                      % (j["i"], j["seed"], why, v2[0]))
        chk.violation("random history is not a behaviour of StoreAbs: %s" % why, detail, key=key)
    all_accepted = all(v[0] == "accepted" for _, v in results)
    if all_accepted and (tot["collects"] == 0 or tot["reclaimed"] == 0):
        raise vlib.MachineryError("random histories never observed a collection reclaiming a block (vacuous)")
    tot["distinct_block_sizes"] = len(tot["distinct_block_sizes"])
    chk.extra["random"] = dict(tot, histories=nhist, steps_each=steps)


# --------------------------------------------------------------------------- (D) housekeeping at scale

TREE_LABELS = ["node:new-page", "node:further-page", "node:last-of-page", "node:recycled",
               "car:new-page", "car:further-page", "car:last-of-page", "car:recycled",
               "ins:split-leaf", "ins:split-interior", "ins:root-grows", "ins:root-grows-again",
               "del:from-leaf", "del:interior-by-predecessor", "del:interior-by-successor", "del:interior-unsplit",
               "del:rotate-down", "del:rotate-up", "del:unsplit-leaf", "del:unsplit-interior", "del:unsplit-with-left",
               "del:root-shrinks", "link:new-size", "link:size-present", "unlink:size-goes", "unlink:size-stays",
               "get:split-entry-reused", "get:split-delete-insert", "get:whole-size-goes",
               "put:merge-none", "put:merge-next", "put:merge-prev", "put:merge-both"]
# what the behaviours at the real constants must reach together (the boundary situations of the class)
SCALE_LABELS = ["node:further-page", "node:last-of-page", "node:recycled", "car:further-page", "car:last-of-page",
                "car:recycled", "ins:split-leaf", "ins:split-interior", "ins:root-grows", "ins:root-grows-again",
                "del:rotate-down", "del:rotate-up", "del:unsplit-leaf", "del:unsplit-interior", "del:root-shrinks",
                "del:interior-by-predecessor", "del:interior-by-successor", "get:split-entry-reused",
                "get:split-delete-insert", "put:merge-both"]


REENT_PROBES = [("StoreImplReentSwapProbe", "SweeperOk"), ("StoreImplReentReturnProbe", "NoRisk"),
                ("StoreImplReentSplitProbe", "SweeperOk")]


def _has_hook_h1b():
    try:
        return "ALDOR_VERIF_GC_PAGES" in open(os.path.join(vlib.SRC, "store.c"), errors="replace").read()
    except OSError:
        return False


def _nested_collects(path):
    """Collect events that the driver observed inside a Free or Alloc call of a re-entrant script."""
    n = 0
    try:
        with open(path) as fh:
            prev = ""
            for line in fh:
                if line.startswith('{"ev":"Collect","implicit":true') and not prev.startswith('{"ev":"Config"'):
                    n += 1
                prev = line
    except OSError:
        pass
    return n


def _gen_cfg(work, base, scens):
    cfg = open(os.path.join(vlib.SPEC, base + ".cfg")).read()
    cfg = cfg.replace("Scens <- ScensMid0", "Scens <- %s" % scens)
    path = os.path.join(work, "gen-%s.cfg" % scens)
    with open(path, "w") as fh:
        fh.write(cfg)
    return path


def _notes(path):
    out = {"treepages": 0, "carrierpages": 0, "freesizes": 0}
    try:
        with open(path) as fh:
            for line in fh:
                if line.startswith('{"ev":"Note"'):
                    e = json.loads(line)
                    for k in out:
                        out[k] = max(out[k], e.get(k, 0))
    except (OSError, ValueError):
        pass
    return out


def scale_runs(tier, work, drv, seed):
    """Stage D: TLC exports behaviours at the real constants (free tree: StoreTreeGen; fresh sections:
    StoreSect); each is turned into a script, run against the real allocator in a fresh process, and the
    recorded trace is validated by TLC (TraceStore).  Runs in its own thread; scale_apply() books the
    results in the main thread."""
    v = seed % 3
    if tier == "quick":
        groups = [("tree", "ScensBig%d" % v, 2, 900), ("tree", "ScensMid%d" % v, 5, 900), ("sect", "StoreSect", 2, 300)]
        nsect = 2
    else:
        groups = [("tree", "ScensThorough", PAR, 1700), ("tree", "ScensBig%d" % v, 2, 900),
                  ("tree", "ScensMid%d" % ((v + 1) % 3), 5, 900), ("sect", "StoreSectDeep", 2, 600)]
        nsect = 6
    groups.append(("reent", "StoreImplReent", 4, 900))
    nreent = 2 if tier == "quick" else 8
    drv_to = 600 if tier == "quick" else 1500

    def run_one(job):
        rc, err, to = _run_drv(drv, ["replay", job["script"], job["trace"], job["gc"], 400000], timeout=drv_to, env=job.get("env"))
        _close_trace(job["trace"], rc, to)
        if rc == 2:
            return job, ("error", None, "driver usage/IO error: " + err, None)
        return job, _validate(job["trace"], cfg=job.get("cfg", "TraceStoreScale"))

    def probe(cfg, inv):
        return cfg, inv, vlib.tlc("StoreImpl", cfg, workers=2, timeout=600, xmx="4g")

    def group(g):
        kind, name, workers, to = g
        jobs = []
        if kind == "tree":
            r = vlib.tlc("StoreTreeGen", _gen_cfg(work, "StoreTreeGenQ", name), workers=workers, timeout=to, xmx="6g")
            recs = store_scale.records(r.printed) if not (r.error or r.violated) else []
            for i, rec in enumerate(recs):
                base = os.path.join(work, "scale-%s" % rec["name"])
                with open(base + ".txt", "w") as fh:
                    fh.write(store_scale.tree_script(rec, seed))
                jobs.append({"kind": "tree", "name": rec["name"], "gc": (i + seed) % 2, "script": base + ".txt",
                             "trace": base + ".ndjson", "rec": {k: rec[k] for k in rec if k != "ops"}, "nops": len(rec["ops"])})
        elif kind == "reent":
            # the model of collections that start inside stoFree / stoAlloc: the order the code uses holds (with the
            # known defects cut off); the probes (steps swapped; no cut; split point) must each be violated
            with ThreadPoolExecutor(max_workers=4) as ex:
                fr = ex.submit(vlib.tlc, "StoreImpl", name, workers=workers, timeout=to, xmx="6g")
                fp = [ex.submit(probe, c, i) for c, i in REENT_PROBES]
                r = fr.result()
                probes = [f.result() for f in fp]
            points = store_scale.gc_points(r.out) if not (r.error or r.violated) else []
            texts, keys = [], []
            for pt in points:
                for vnt in range(nreent):
                    t = store_scale.reent_script(pt, seed * 17 + vnt)
                    if t:
                        texts.append(t)
                        keys.append((pt, vnt))
            if texts:
                base = os.path.join(work, "reent-safe")
                with open(base + ".txt", "w") as fh:
                    fh.write("".join(texts))
                jobs.append({"kind": "reent", "name": "reent-safe", "gc": 1, "script": base + ".txt", "trace": base + ".ndjson",
                             "cfg": "TraceStoreScale", "keys": keys, "texts": texts, "points": points, "probes": probes, "nops": len(texts)})
                if _has_hook_h1b():
                    # the same situations with the collection forced by hook H1b instead of by using up the pages
                    base = os.path.join(work, "reent-h1b")
                    t2 = [store_scale.reent_script(pt, seed * 17 + vnt, use_drain=False) for pt, vnt in keys]
                    with open(base + ".txt", "w") as fh:
                        fh.write("".join(t2))
                    jobs.append({"kind": "reent", "name": "reent-h1b", "gc": 1, "script": base + ".txt", "trace": base + ".ndjson",
                                 "cfg": "TraceStoreScale", "keys": keys, "texts": t2, "points": points, "probes": [], "nops": len(t2),
                                 "env": {"ALDOR_VERIF_GC_ALWAYS": "1", "ALDOR_VERIF_GC_PAGES": "1:0"}})
                for kname, text in sorted(store_scale.known_reent_scripts().items()):
                    base = os.path.join(work, "reent-known-" + kname)
                    with open(base + ".txt", "w") as fh:
                        fh.write(text)
                    jobs.append({"kind": "reent-known", "name": kname, "gc": 1, "script": base + ".txt", "trace": base + ".ndjson",
                                 "cfg": "TraceStoreScale", "nops": text.count("\n")})
        else:
            r = vlib.tlc("StoreSect", name, workers=workers, timeout=to, xmx="3g")
            entries = store_scale.sect_entries(r.printed) if not (r.error or r.violated) else []
            for variant in range(nsect if entries else 0):
                base = os.path.join(work, "sect-%d" % variant)
                text, idmap = store_scale.sect_script(entries, seed, variant)
                with open(base + ".txt", "w") as fh:
                    fh.write(text)
                jobs.append({"kind": "sect", "name": "sect-%d" % variant, "gc": 1 if variant >= 4 else 0, "script": base + ".txt",
                             "trace": base + ".ndjson", "entries": entries, "nops": text.count("\n")})
        with ThreadPoolExecutor(max_workers=max(1, min(PAR, len(jobs)))) as ex:
            results = list(ex.map(run_one, jobs))
        return g, r, results

    with ThreadPoolExecutor(max_workers=len(groups)) as ex:
        return list(ex.map(group, groups))


def scale_apply(chk, res):
    labels, allok = set(), True
    info = {"tree_behaviours": 0, "tree_operations": 0, "sect_scripts": 0, "sect_requests": 0, "pages": [], "drift": 0}
    sect_pred = sect_match = 0
    maxobs = {"treepages": 0, "carrierpages": 0, "freesizes": 0}
    for (kind, name, workers, to), r, results in res:
        chk.add_tlc(name, r)
        if r.violated:
            chk.violation("the %s violates %s" % ({"tree": "housekeeping model StoreTree at the real constants",
                                                   "sect": "section arithmetic StoreSect",
                                                   "reent": "model of collections inside an operation (StoreImpl, Reentrant)"}[kind], r.violated),
                          r.trace_text, key={"model": name, "inv": r.violated})
            allok = False
            continue
        if not results:
            raise vlib.MachineryError("%s exported no behaviour:\n%s" % (name, r.out[-1500:]))
        for job, (verdict, idx, why, rv) in results:
            if verdict == "error":
                raise vlib.MachineryError("scale history %s: %s" % (job["name"], why))
            chk.states += rv.distinct
            chk.transitions += rv.states
            chk.traces += 1
            chk.case(("scale", job["name"], job["gc"], chk.seed % 8), nontrivial=True)
            obs = _notes(job["trace"])
            for k in maxobs:
                maxobs[k] = max(maxobs[k], obs[k])
            if job["kind"] in ("reent", "reent-known"):
                info.setdefault("reentrant", {"situations": 0, "scripts": 0, "nested_collections_seen": 0, "known_finding_scripts": 0})
                ri = info["reentrant"]
                ri["nested_collections_seen"] += _nested_collects(job["trace"])
                if job["kind"] == "reent":
                    ri["situations"] = len(job["points"])
                    ri["scripts"] += len(job["texts"])
                    chk.traces += len(job["texts"]) - 1
                    for pt, vnt in job["keys"]:
                        chk.case(("reent", job["name"]) + tuple(pt) + (vnt,), nontrivial=True)
                    for cfgp, inv, rp in job["probes"]:
                        if rp.error:
                            raise vlib.MachineryError("probe %s: %s" % (cfgp, rp.error))
                        chk.states += rp.distinct
                        chk.transitions += rp.states
                        if rp.violated != inv:
                            raise vlib.MachineryError("probe %s: TLC did not report %s violated (got %s): the re-entrant model "
                                                      "no longer shows this situation" % (cfgp, inv, rp.violated))
                    if job["name"] == "reent-safe" and len(chk.samples) < 10:
                        chk.sample({"collection_inside_an_operation": [list(p) for p in job["points"]][:6], "script": job["texts"][0],
                                    "verdict": verdict})
                    if not {p[0] for p in job["points"]} >= {"free", "discard"}:
                        raise vlib.MachineryError("StoreImplReent exported no nested collection inside stoFree / stoAlloc: %s" % job["points"])
                else:
                    ri["known_finding_scripts"] += 1
                if verdict != "accepted":
                    allok = False
                    ev = _read_events(job["trace"], max(1, idx - 6), idx)
                    ev = [e for e in ev if '"n":256,' not in e][-8:]
                    detail = {"why": why, "event_index": idx, "events": ev}
                    if job["kind"] == "reent":
                        nres = 0
                        with open(job["trace"]) as fh:
                            for i, line in enumerate(fh, 1):
                                if i >= idx:
                                    break
                                nres += 1 if line.startswith('{"ev":"Reset"') else 0
                        pt, vnt = job["keys"][nres] if nres < len(job["keys"]) else (None, None)
                        key = {"mode": "reent", "forced_by": "hook" if job["name"] == "reent-h1b" else "no free page",
                               "situation": list(pt) if pt else None, "why": _why_kind(why)}
                        detail["script"] = job["texts"][nres] if nres < len(job["texts"]) else None
                        chk.violation("a collection that starts inside stoFree / stoAlloc (page request of the free index): "
                                      "history is not a behaviour of StoreAbs: %s" % why, detail, key=key)
                    else:
                        key = {"mode": "reent-known", "history": job["name"], "why": _why_kind(why)}
                        detail["script"] = open(job["script"]).read()[:600]
                        chk.violation("a collection that starts inside stoFree / stoAlloc damages the free index (%s): %s"
                                      % (job["name"], why), detail, key=key)
                continue
            if job["kind"] == "tree":
                rec = job["rec"]
                labels |= set(rec["labels"])
                info["tree_behaviours"] += 1
                info["tree_operations"] += job["nops"]
                drift = (obs["treepages"], obs["carrierpages"]) != (rec["nodepages"], rec["carpages"])
                info["drift"] += 1 if drift else 0
                info["pages"].append({"scenario": job["name"], "distinct_free_sizes_model": rec["maxkeys"],
                                      "distinct_free_sizes_seen": obs["freesizes"], "nodes_model": rec["maxnodes"],
                                      "tree_pages_model": rec["nodepages"], "tree_pages_seen": obs["treepages"],
                                      "carrier_pages_model": rec["carpages"], "carrier_pages_seen": obs["carrierpages"]})
                if len(chk.samples) < 8 and info["tree_behaviours"] <= 2:
                    chk.sample({"scale_history": job["name"], "operations": job["nops"], "gc": job["gc"], "verdict": verdict,
                                "model": {k: rec[k] for k in ("rq", "nodepages", "carpages", "maxnodes", "maxkeys")}, "seen": obs})
            else:
                info["sect_scripts"] += 1
                info["sect_requests"] += len(job["entries"])
                want = {e["n"]: e["usable"] for e in job["entries"]}
                try:
                    with open(job["trace"]) as fh:
                        for line in fh:
                            if line.startswith('{"ev":"Alloc"'):
                                e = json.loads(line)
                                if e["n"] in want:
                                    sect_pred += 1
                                    sect_match += 1 if e["size"] == want[e["n"]] else 0
                except (OSError, ValueError):
                    pass
                if info["sect_scripts"] == 1:
                    chk.sample({"fresh_section_sweep": job["name"], "requests": [e["n"] for e in job["entries"]][:12] + ["..."],
                                "script_lines": job["nops"], "verdict": verdict})
            if verdict == "accepted":
                continue
            allok = False
            ev = _read_events(job["trace"], max(1, idx - 8), idx)
            key = {"mode": "scale", "history": job["name"], "gc": job["gc"], "why": _why_kind(why)}
            detail = {"why": why, "event_index": idx, "events": ev, "script": job["script"],
                      "script_head": open(job["script"]).read()[:1500]}
            chk.violation("history at scale is not a behaviour of StoreAbs: %s" % why, detail, key=key)
    info["sect_sizes_as_modelled"] = "%d of %d" % (sect_match, sect_pred)
    info["seen_max"] = maxobs
    chk.extra["scale"] = info
    if allok:
        missing = [g for g in SCALE_LABELS if g not in labels]
        if missing:
            raise vlib.MachineryError("behaviours at the real constants never take: %s (vacuous)" % missing)
        if maxobs["treepages"] < 2 or maxobs["carrierpages"] < 2 or maxobs["freesizes"] < 257:
            raise vlib.MachineryError("the real allocator never filled a housekeeping page in the scale histories: %s" % maxobs)
        if sect_pred == 0 or sect_match * 2 < sect_pred:
            raise vlib.MachineryError("fresh-section sweep: only %d of %d blocks had the modelled size (not served from "
                                      "fresh sections?)" % (sect_match, sect_pred))
    chk.extra["scale_subcases_reached"] = sorted(labels)


# --------------------------------------------------------------------------- entry

def run(chk, tier):
    b = vlib.vbuild()
    work = vlib.scratch("c10")
    # the binary is cached inside the build cache, which concurrent builds may evict: work on a copy
    drv = os.path.join(work, "store_drv")
    shutil.copy2(vlib.harness_build("store_drv", [HARNESS], b), drv)
    chk.rule = ("a case is one concrete operation history executed against the real allocator and validated by TLC "
                "against StoreAbs: every history of the StoreGen configurations (all sequences of "
                "alloc/free/resize/recode/write/set-root/collect up to the depth bound over abstract size classes) under "
                "one or more assignments of class-boundary byte counts, plus random histories (distinct by seed, gc mode, "
                "size profile), plus the histories at scale exported by TLC from StoreTreeGen (hundreds of distinct free "
                "sizes, distinct by scenario) and StoreSect (every request size next to a page-count boundary of a fresh "
                "section, distinct by order variant); random histories count as non-trivial when a collection occurred")
    chk.exhaustive = False
    chk.assumptions += [
        "the harness observes the allocator only through its public API (stoAlloc, stoFree, stoResize, stoRecode, stoSize, "
        "stoCode, stoIsPointer, stoGc, stoAudit) and by reading the bytes of the blocks it owns",
        "a block is taken to be reclaimed when stoIsPointer denies it, or when its first word was overwritten during a call "
        "in which a collection ran",
        "x86-64 Linux, 8-byte alignment = alignof(MostAlignedType); addresses relative to the initial program break",
        "roots are words in static data and in a live stack frame; stale words elsewhere may keep garbage alive (allowed)",
        "constants of store.c on x86-64 used by StoreTreeGen / StoreSect: MixedBTreeT 16, node 776 bytes, carrier 16 bytes, page "
        "4096, SectionHeadSize 32, MxMemHeadSize 32, quantum 256 (the page counts they predict are compared with what "
        "stoShowDetail reports, as drift information)",
        "a collection inside stoFree / stoAlloc is provoked by using up the free heap pages (script command D) in automatic "
        "mode, or by hook H1b (hooks/unapplied-H1b-pagesget-gc.diff) when the tree has it; situations in which the unchanged tree is "
        "known to fail are separate scripts (known_findings.jsonl, mode reent-known)",
    ]
    # the model runs and the runs against the real allocator are independent: do them side by side
    # (C10_STAGES=replay,random restricts a run to some stages; used only by the self-tests with mutated
    # sources, where the model runs -- which do not depend on the C code -- would be repeated for nothing)
    stages = os.environ.get("C10_STAGES", "models,replay,random,scale").split(",")
    with ThreadPoolExecutor(max_workers=3) as ex:
        fm = ex.submit(model_runs, tier, work) if "models" in stages else None
        fs = ex.submit(scale_runs, tier, work, drv, chk.seed) if "scale" in stages else None
        if "replay" in stages:
            replay_histories(chk, drv, work, tier)
        if "random" in stages:
            random_histories(chk, drv, work, tier)
        if fs:
            scale_apply(chk, fs.result())
        if fm:
            model_apply(chk, *fm.result())
    if set(stages) != {"models", "replay", "random", "scale"}:
        chk.assumptions.append("PARTIAL RUN: C10_STAGES=%s" % ",".join(stages))


def replay(d):  # bin/verif replay C10 <file>
    print(json.dumps(d.get("detail", {}), indent=1)[:6000])
    return 0


def selftest_corrupt():
    """python3 -c "import sys; sys.path[:0]=['/verif/lib','/verif']; import checks.c10 as c; c.selftest_corrupt()"
    Records one random history from the unchanged tree, then corrupts one field of one event at a time and
    shows that TLC refuses the trace at that event (and accepts the untouched trace)."""
    import copy
    b = vlib.vbuild()
    work = vlib.scratch("c10self")
    drv = os.path.join(work, "store_drv")
    shutil.copy2(vlib.harness_build("store_drv", [HARNESS], b), drv)
    t = os.path.join(work, "t.ndjson")
    _run_drv(drv, ["random", 11, 3000, t, 0, 48, 0], 120)
    ev = [json.loads(x) for x in open(t)]
    first = lambda kind, pred=lambda e: True: next(i for i, e in enumerate(ev) if e["ev"] == kind and i > 500 and pred(e))
    cases = [("untouched", None, None)]
    i = first("Alloc"); cases.append(("Alloc.size = n-1", i, lambda e: e.update(size=e["n"] - 1)))
    cases.append(("Alloc.off += 4", i, lambda e: e.update(off=e["off"] + 4)))
    j = max(k for k in range(i) if ev[k]["ev"] == "Alloc")
    cases.append(("Alloc at the address of the previous Alloc", i, lambda e: e.update(pg=ev[j]["pg"], off=ev[j]["off"])))
    i = first("Resize"); cases.append(("Resize.prefix_ok = false", i, lambda e: e.update(prefix_ok=False)))
    i = first("Collect", lambda e: len(e["surv"]) >= 1)
    cases.append(("Collect: first survivor dropped", i, lambda e: e.update(surv=e["surv"][1:])))
    i = first("Free"); cases.append(("event.bad = [[1,2]]", i, lambda e: e.update(bad=[[1, 2]])))
    cases.append(("event.aud = false", i, lambda e: e.update(aud=False)))
    ok = True
    for name, idx, f in cases:
        e2 = copy.deepcopy(ev)
        if f:
            f(e2[idx])
        p2 = os.path.join(work, "c.ndjson")
        vlib.write_ndjson(p2, e2)
        v = _validate(p2)
        want = ("accepted", None) if f is None else ("rejected", idx + 1)
        good = v[0] == want[0] and (want[1] is None or v[1] == want[1])
        ok = ok and good
        print("%-48s -> %s %s %s  [%s]" % (name, v[0], v[1], v[2], "ok" if good else "UNEXPECTED"))
    vlib.cleanup_scratch()
    return ok


SELFTEST_NOTES = """
Binding demonstration (2026-10-04).  Each mutation was applied to a scratch git worktree of /repo
(`git -C /repo worktree add --detach /tmp/wt-c10-Mx`, removed afterwards) and the quick tier was run with
VERIF_SRC=<worktree>/aldor/aldor/src C10_STAGES=replay,random (the model runs do not depend on the C code).
All compile.  "caught" = exit 1 with VIOLATION lines; the reason is what TLC's TraceStore printed.

 M1  store.c stoInit: fixedSizeFor[]/fixedSizeIndexFor[] not set for j == class size (off by one)
        caught  replay: Fault (allocator died / audit assertion)
 M2  stoResize: memcpy(np, p, MIN(nbytes, osz) - 1)
        caught  replay: "Resize: common prefix not preserved"
 M3  stoGcMarkRange: hi0 one word too low (last word of every scanned range skipped)
        caught  replay: "Collect: reachable block reclaimed" (confirmed on the single script alone)
 M4  mxmemMerge: N->nbytesPrev not updated
        caught  replay: Fault (stoAudit assertion)
 M5  pieceGetMixed: mixedFrontier not cleared when the frontier piece is consumed whole
        caught  replay: Fault (stoAudit assertion)
 M6  pagesGet: last page of a multi-page run left PgFree
        caught  replay: Fault (stoAudit assertion)
 M7  stoAlloc: nb = ROUND_UP(nbytes, MixedSizeQuantum) (header forgotten)
        caught  replay: "Alloc: block smaller than requested" (n = 481, 737, ...)
 M8  stoGcSweepMixed: marked pieces of more than 16 quanta swept
        caught  replay: Fault (audit: mark bits left set)
 M10 stoRecode: code written into the next quantum
        caught  replay: Recode rejected (object code not recorded)
 M11 stoGcMarkRange: pointers into follow quanta of a mixed piece ignored (no walk back to the piece head)
        caught  replay: "Collect: reachable block reclaimed"
 M15 stoGcMarkRange: pointers into PgBusyFollow pages ignored
        caught  replay: "Collect: reachable block reclaimed"
 With the allocator's own audit switched off (stoAudit() made empty) in the same worktree, to see what the
 property-level observations catch by themselves:
 M16 = M5 + no audit   first attempt: MISSED by replay (only the random histories died with a Fault): no size in the
        alphabet made a fresh two-page frontier be consumed whole.  StoreImpl distinguishes that sub-case
        (mixed:new-frontier-consume); the byte counts 7648/7649/7904/7905 were added to the alphabet.
        now caught  replay: "Lost: a live block is no longer allocated although no collection ran"
 M17 sweep of marked mixed pieces > 4 quanta + no audit
        caught  replay: "Collect: reachable block reclaimed"
 M18 = M6 + no audit   caught  replay: "Alloc: contents of a live block changed" (the run also showed that a hung
        child blocked its shard until the 1500 s driver timeout: the driver now kills a script's child after 60 s
        and writes a Hang event)
 Machinery bugs found by these runs and repaired: build-cache eviction by concurrent builds removed the harness
 binary mid-run (now copied to scratch); -coverage 1 on StoreImpl exhausted the JVM heap (replaced by
 reachability probes); the "vacuous random histories" guard pre-empted the violation report when every history
 died early (now only applied when all traces were accepted); TraceStore had no reason text for Recode.

Corrupted events (selftest_corrupt() in this file; one field of one event of a recorded trace changed, TLC must
refuse the trace exactly at that event; the untouched trace is accepted):
 Alloc.size = n-1 -> "Alloc: block smaller than requested";  Alloc.off += 4 -> "Alloc: block not aligned";
 Alloc at the address of the previous Alloc -> "Alloc: block overlaps a live block";
 Resize.prefix_ok = false -> "Resize: common prefix not preserved";
 Collect with its first survivor dropped -> "Collect: reachable block reclaimed";
 bad = [[1,2]] -> "contents of a live block changed";  aud = false -> "stoAudit did not complete";
 an inserted Fault event -> "Fault: the allocator died".

Model-side sanity (scratch copies of the modules): StoreImpl.Merge without the update of the next piece's
nbytesPrev -> AuditInv violated after 545 states; StoreImpl.SweepFixed that never keeps quantum 0 -> Refines
violated (StoreAbs.Collect refuses the survivor set).  StoreAbsMC: -coverage 1 shows every action generated;
StoreImpl: 25 sub-case labels each shown reachable by a ProbeInv violation.

Unchanged tree: quick held with VERIF_SEED 20261004 and 7; no finding.

Extension (2026-10-04, later): housekeeping structures at scale, fresh sections of large requests, collections that
start inside an operation (stage D, scale_runs / scale_apply; C10_STAGES=scale runs it alone).
 Seeded changes (bin/seedtest, quick tier):
  C10-1  stoAllocInner carves one node too many from a housekeeping page   caught  stage D, tree behaviours (Fault / Lost)
  C10-2  fresh section sized without the per-quantum information bytes     caught  stage D, fresh-section sweep (8 x "Alloc:
         block smaller than requested") and random histories
  C10-3  sweep clears marks of the wrong number of quanta                  caught  replay, random (as before)
  C09-3  piecePutMixed: isFree set before mxmemLink                        caught  stage D, collection inside stoFree
         (situation free / garbage piece in front; Fault sig 11); 14 of the 28 scripts fail when run one by one
 Further mutations tried against stage D alone (scratch worktrees, removed):
  N1  pieceGetMixed: SectionHeadSize left out of nb (neighbour of C10-2)   caught  sweep: "Alloc: block smaller than requested"
  N5  btreeUnsplitChild copies one branch too few (only interior nodes, i.e. a tree of height 3)
                                                                           caught  t530 behaviour: Fault
  N2  sectQmCount with one byte more in the numerator                      not caught: equivalent for all page counts <= 24
 Model-side: StoreTree (T = 2) every history over 5 sizes holds (65 833 states); the behaviours at the real constants
 predicted the number of B-tree pages and carrier pages the real allocator reported (stoShowDetail) in all 6 quick
 scenarios (drift 0).  StoreImplReent holds with the known defects cut off (14 556 states); StoreImplReentSwapProbe,
 StoreImplReentReturnProbe, StoreImplReentSplitProbe are each violated (the check requires it).
 Machinery bugs found on the way: the driver's reference images for fast compares were separate writable mappings --
 os_unix.c's osMemMap has room for 30 writable mappings (static mmv[MAX_MMAPS], no bound check) and the collector
 crashed; they are now one mapping that is read-only except while being extended.  fault() dropped the whole output
 buffer, so a trace ended with the Fault alone; it now keeps the complete events.
 Findings on the unchanged tree (known_findings.jsonl, mode reent-known; candidate patch
 hooks/fix-C10-no-collection-inside-index-update.diff makes all four scripts pass): a collection started by pagesGet
 inside stoFree / stoAlloc (page request of mxmemLink, no page free, automatic mode) damages the free index.
"""
