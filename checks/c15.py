"""C15 -- Diagnostics point at the right file, line and column.

(A) TLC checks spec/Include.tla + spec/SrcPos.tla exhaustively at scaled widths (CNO=2, LNO=3):
    the required design satisfies PosFaithful; the code as written satisfies it except for three
    characterised defect classes, each of which TLC exhibits (expected violations).
(B) Replay: abstract file sets (gen/srcpos.py) are rendered as Aldor text with planted faults, the
    freshly built compiler is run on them (default message format and -M no-source), and
    spec/TraceSrcPos.tla -- the same Include machine at the REAL widths (14, 48) -- decides for
    every case whether the printed file/line/column/text/count are the required ones.
(C) The REPORT as the user reads it (spec/Report.tla: comsgReportFile/ReportLine/PrintLine/PrintDots and
    sposLineText with its cache, against ReqReport = the required sequence of headings, echoed source
    lines, carets and leads): TLC checks ReportFaithful over every layout within the bounds and every
    choice of up to 3 lines with messages in several columns, sorted and unsorted; the default-style
    output of EVERY replay case is parsed into that structure and compared by TraceSrcPos (heading file
    and line, echoed text = that line of THAT file on disk, caret columns, leads, grouping); TLC also
    enumerates the layouts in which two remembered lines have the same line number in different files
    or differently renumbered stretches (spec/ReportGen.tla), a seed-chosen sample of which is rendered
    with one to three planted messages per line and replayed in the styles default, -Mno-sort, -Mpreview.
"""
import json
import os
import random
import sys
import threading
import time
from concurrent.futures import ThreadPoolExecutor

import vlib

sys.path.insert(0, os.path.join(vlib.VERIF, "gen"))
import srcpos as G  # noqa: E402

META = {
    "title": "Diagnostics point at the right file, line and column",
    "level": "model_checking",
    "technique": "TLA+ (Include/SrcPos) checked exhaustively with TLC at scaled widths; TLC-evaluated replay of abstract "
                 "file sets against the compiler's diagnostics at the real widths (TraceSrcPos)",
    "design_ref": "DESIGN.md §3.8, §5 C15",
    "level_text": "TLC exhaustive within bounds (<=3 files, <=12 lines, <=5/6/7 items; reports of <=3 lines x 3 columns) + replay of generated cases",
    "level_note": "PosFaithful holds for the required design; the code as written violates it in three characterised ways "
                  "(known findings); Apalache at real widths is an additional obligation recorded in the evidence",
}

KS = [0, 1, 2, 100, 16383, 16384, 65535, 65536, 70000]
STYLES = ["blank", "comment", "spaces", "mixed"]
NOEXTRA = ("-noGenerateSpecTE",)


# --------------------------------------------------------------------------
# (A) exhaustive model checking

def model_runs(tier):
    """waves of (cfg, expectation, workers); the runs of a wave execute concurrently"""
    waves = [[("IncludeReq", "hold", 5), ("IncludeAswFit", "hold", 5), ("IncludeReq3", "hold", 3), ("IncludeAswFit3", "hold", 3)],
             [("IncludeAswPack", "violate", 2), ("IncludeAswTbl", "violate", 2), ("IncludeAswEof", "violate", 3),
              ("IncludeNoLimit", "violate", 2), ("IncludeReqMac", "hold+cov", 3), ("IncludeShift:IncludeShiftReq", "hold", 4),
              # the report (spec/Report.tla): what comsg.c prints = the required report for every choice of messages;
              # grouping by the local line number alone and the heading as written must each be refuted
              ("Report:ReportReq", "hold", 4), ("Report:ReportLline", "violate", 1), ("Report:ReportAswHead", "violate", 1)]]
    if tier == "thorough":
        waves += [[("IncludeReq5", "hold", 8), ("IncludeAswFit5", "hold", 8)],
                  [("IncludeShift:IncludeShiftAsw", "hold", 8), ("IncludeShift:IncludeShiftAswPack", "violate", 2), ("IncludeAswPackFit", "hold", 6)],
                  [("IncludeShift:IncludeShiftReq4", "hold", 8), ("IncludeShift:IncludeShiftReq3f", "hold", 8)],
                  [("IncludeReq6", "hold", 16)], [("IncludeAswFit6", "hold", 16)],
                  [("IncludeReqIF7", "hold", 16)],
                  [("Report:ReportReq5", "hold", 8), ("Report:ReportReq3f", "hold", 8)]]
        if os.environ.get("C15_DEEP"):      # about 2*10^7 states; not part of the default thorough tier
            waves += [[("IncludeReqIL7", "hold", 16)]]
    return waves


ACTIONS = ("ALines", "AInclude", "ALineDir", "AIf", "AElseif", "AElse", "AEndif", "AAssert", "AUnknown", "AEOF")


def run_models(chk, tier):
    res = {}

    def one(name, workers, cov):
        module, cfg = name.split(":") if ":" in name else ("Include", name)
        res[name] = vlib.tlc(module, cfg, workers=workers, timeout=3000, extra=NOEXTRA, coverage=cov, xmx="8g")

    expected = {}
    for wave in model_runs(tier):
        ths = [threading.Thread(target=one, args=(n, w, "cov" in want)) for n, want, w in wave]
        for t in ths:
            t.start()
        for t in ths:
            t.join()
        for name, want, _ in wave:
            r = res[name]
            if want.startswith("hold"):
                chk.add_tlc(name, r)
                if r.violated:
                    chk.violation("model %s: invariant %s violated" % (name, r.violated), r.trace_text,
                                  key={"model": name, "inv": r.violated})
            else:
                if r.error and not r.violated:
                    raise vlib.MachineryError("TLC run %s failed: %s" % (name, r.error))
                if not r.violated:
                    raise vlib.MachineryError("model %s no longer exhibits the documented defect (expected a violation)" % name)
                chk.tlc_runs.append({"name": name, "generated": r.states, "distinct": r.distinct, "wall_s": round(r.wall, 2),
                                     "expected_violation": r.violated})
                expected[name] = r.violated
            if "cov" in want:
                # every includer action must have been exercised (AUnknown and AAssert lead to the same
                # states whenever both are enabled, so only one of the two can count as `taken')
                cov = r.coverage
                missing = [a for a in ACTIONS if cov.get(a, (0, 0))[1] == 0]
                missing += [a for a in ACTIONS if cov.get(a, (0, 0))[0] == 0 and a not in ("AUnknown", "AAssert")]
                if cov.get("AUnknown", (0, 0))[0] + cov.get("AAssert", (0, 0))[0] == 0:
                    missing.append("AAssert/AUnknown")
                if missing:
                    raise vlib.MachineryError("includer actions never taken in the model: %s" % missing)
                chk.extra["model_coverage"] = {k: list(v) for k, v in cov.items()}
    chk.extra["expected_model_violations"] = expected


def run_apalache(chk, tier):
    """Additional obligation (recorded, DESIGN.md 2.1): the pack/unpack pair at the real widths for every
    global line below END_LINE_NO and every column <= 10^9 (spec/SrcPosApa.tla)."""
    import shutil
    import subprocess
    out = {}
    exe = shutil.which("apalache-mc")
    if not exe:
        chk.extra["apalache"] = "apalache-mc not found"
        return
    invs = [("ReqFaithful", "NoError"), ("AswFaithful", "Error")] + ([("AswFaithfulFit", "NoError")] if tier == "thorough" else [])
    for inv, want in invs:
        d = vlib.scratch("c15apa")
        shutil.copy(os.path.join(vlib.SPEC, "SrcPosApa.tla"), d)
        t0 = time.time()
        try:
            p = subprocess.run([exe, "check", "--length=0", "--inv=" + inv, "--out-dir=" + os.path.join(d, "out"), "SrcPosApa.tla"],
                               cwd=d, stdout=subprocess.PIPE, stderr=subprocess.STDOUT, timeout=900)
            txt = p.stdout.decode(errors="replace")
            got = "NoError" if "The outcome is: NoError" in txt else "Error" if "The outcome is: Error" in txt else "unknown"
        except subprocess.TimeoutExpired:
            got = "timeout"
        out[inv] = {"outcome": got, "expected": want, "wall_s": round(time.time() - t0, 1)}
        if inv == "ReqFaithful" and got == "Error":
            chk.violation("Apalache: the required packer is not faithful at the real widths", txt[-3000:],
                          key={"model": "SrcPosApa", "inv": inv})
    chk.extra["apalache"] = out


# --------------------------------------------------------------------------
# (B) replay

def families(tier, rng):
    """A family is a list of planted faults (the text of the fault lines); its layouts differ only in
    where those lines are put.  Returns [(family key, [faults], phase)]."""
    fams = []
    cols_q = [None, 100, 16383, 16384, 20000]
    cols_t = [None, 50, 100, 1000, 16382, 16383, 16384, 16385, 16415, 20000]
    pads_q = {None: ["lead"], 100: ["lead", "tab"], 16383: ["mid", "lead"], 16384: ["lead", "mid"], 20000: ["mid", "lead"]}
    kinds = ["undef", "strlit", "rettype", "macro", "syntax"]
    for kind in kinds:
        for c in (cols_q if tier == "quick" else cols_t):
            pads = pads_q.get(c, ["lead"]) if tier == "quick" else (["lead"] if c is None else ["lead", "mid", "tab", "midtab"])
            if tier == "quick" and kind in ("rettype", "macro") and c in (100, 16383):
                continue
            for pad in pads:
                fams.append(("%s@%s/%s" % (kind, c, pad), [G.Fault(kind, 1, col=c, pad=pad)], G.FAULTS[kind]["phase"]))
    multi = [
        [("undef", None, "lead"), ("strlit", 100, "lead"), ("rettype", 16383, "mid"), ("macro", None, "lead")],
        [("strlit", None, "lead"), ("undef", 16384, "lead"), ("macro", None, "lead")],
        [("undef", 20000, "mid"), ("strlit", 16385, "lead"), ("rettype", None, "lead")],
        [("macro", 16383, "lead"), ("undef", 70, "tab"), ("strlit", 16383, "midtab")],
    ]
    if tier == "thorough":
        multi += [[("undef", rng.choice(cols_t), rng.choice(["lead", "mid", "tab"])),
                   ("strlit", rng.choice(cols_t), rng.choice(["lead", "mid"])),
                   ("rettype", rng.choice(cols_t), rng.choice(["lead", "mid"])),
                   ("macro", rng.choice(cols_t), "lead")] for _ in range(6)]
    for m in multi:
        fl = [G.Fault(kd, n + 1, col=c, pad=p) for n, (kd, c, p) in enumerate(m)]
        fams.append(("+".join(f.key() for f in fl), fl, "sem"))
    fams.append(("error*2", [G.Fault("error", 1), G.Fault("error", 2)], "scan"))
    fams.append(("endif", [G.Fault("endif", 1)], "incl"))
    fams.append(("else", [G.Fault("else", 1)], "incl"))
    return fams


# --------------------------------------------------------------------------
# report layouts enumerated by TLC (spec/ReportGen.tla)

GEN_CFGS = {"quick": [("ReportGen", 4)], "thorough": [("ReportGen", 4), ("ReportGen3", 8), ("ReportGenL", 8)]}
GEN_SAMPLE = {"quick": 100, "thorough": 2500}
STANDIN_LINES = 6      # lines of a file that is only named by #line (so some renumbered lines exist on disk, some do not)

# statements planted on one remembered line: (kind, column or None, pad)
LINE_PATTERNS = [
    [("bare", None, "lead")],
    [("bare", None, "lead"), ("bare", 30, "lead")],
    [("bare", 3, "lead"), ("funny", 24, "lead")],
    [("funny", None, "lead")],
    [("undef", 100, "lead")],                      # longer than the report's width: heading on a line of its own
    [("bare", 17, "tab")],                         # the echoed text is shown with the tabs expanded
    [("funny", 9, "lead"), ("bare", 40, "lead")],
    [("bare", None, "lead"), ("bare", 16, "lead"), ("bare", 50, "lead")],
]


def tlc_layouts(chk, tier):
    """Final states of the generator in which two remembered lines have the same line number."""
    out = []
    for cfg, workers in GEN_CFGS[tier]:
        r = vlib.tlc("ReportGen", cfg, workers=workers, timeout=1500, extra=NOEXTRA, xmx="6g")
        chk.add_tlc(cfg, r)
        if r.violated:
            chk.violation("model %s: invariant %s violated" % (cfg, r.violated), r.trace_text, key={"model": cfg, "inv": r.violated})
            continue
        n = 0
        for s in r.printed:
            if isinstance(s, str) and s.startswith("CASE "):
                d = json.loads(s[5:])
                d["cfg"] = cfg
                out.append(d)
                n += 1
        if n == 0:
            raise vlib.MachineryError("generator %s exported no layout" % cfg)
    return out


def layout_class(d):
    """coarse signature used to spread the sample: which kinds of items, how many files, how the clash arises"""
    kinds = "".join({"lines": "L", "include": "I", "line": "D", "eof": "E"}.get(h["k"], "?") for h in d["hist"])
    named = sorted({h["f"] for h in d["hist"] if h["k"] == "line" and h["f"]})
    return "%s|%d|%s" % (kinds, d["nfiles"], ",".join(named))


def gen_families(chk, tier, rng):
    lay = tlc_layouts(chk, tier)
    lay.sort(key=lambda d: json.dumps(d, sort_keys=True))       # TLC's output order depends on its workers
    byclass = {}
    for d in lay:
        byclass.setdefault(layout_class(d), []).append(d)
    classes = sorted(byclass)
    rng.shuffle(classes)
    picked, want = [], min(GEN_SAMPLE[tier], len(lay))
    while len(picked) < want:                                  # round robin over the classes
        for cl in classes:
            if byclass[cl] and len(picked) < want:
                picked.append(byclass[cl].pop(rng.randrange(len(byclass[cl]))))
    # One family for all generated layouts: a pool of planted statements, slot s (the s-th planted line of a case)
    # x pattern p; a case uses the statements of the (slot, pattern) pairs it chose.  The base layout holds them all.
    nslots = max(len(d["lines"]) for d in picked)
    pool, faults = {}, []
    for sl in range(nslots):
        for p, pat in enumerate(LINE_PATTERNS):
            pool[(sl, p)] = []
            for kind, col, pad in pat:
                faults.append(G.Fault(kind, len(faults) + 1, col=col, pad=pad))
                pool[(sl, p)].append(len(faults) - 1)
    vs = [("same", dict(k=0, where=1, style="blank"))]
    names = set()
    for n, d in enumerate(picked):
        if rng.random() < 0.5:
            lines = list(d["lines"])                           # every remembered line carries messages
            how = "all"
        else:
            pair = rng.choice(sorted(map(tuple, d["clash"])))
            lines = sorted(set(pair))                          # only two lines with the same line number
            how = "pair"
        plan = {str(g): pool[(sl, rng.randrange(len(LINE_PATTERNS)))] for sl, g in enumerate(sorted(lines))}
        top = d["hist"][0]["file"] if d["hist"] else "ra.as"
        real = {h["file"] for h in d["hist"]}
        standins = {h["f"]: STANDIN_LINES for h in d["hist"] if h["k"] == "line" and h["f"] and h["f"] not in real}
        vs.append(("gen", dict(hist=d["hist"], plan=plan, top=top, standins=standins, tail=rng.choice([0, 2, 2, 3]), how=how, n=n)))
        names.add(layout_class(d))
    fams = [("gen", faults, "sem", vs)]
    chk.extra["gen_layouts"] = {"exported_by_tlc": len(lay), "classes": len(classes), "replayed": len(picked),
                                "classes_replayed": len(names)}
    return fams


def overflowing(faults):
    return any(f.col >= 16384 for f in faults)


def variants(tier, faults, phase, rng):
    """[(layout name, kwargs)] -- the base layout (same file, k = 0) comes first."""
    out = [("same", dict(k=0, where=1, style="blank"))]

    def st():                       # the line styles rotate over the variants
        return STYLES[len(out) % len(STYLES)]
    for k in KS[1:]:
        out.append(("same", dict(k=k, where=1, style=st())))
    ks2 = [2, 16384, 70000] if tier == "quick" else KS[1:]
    kq = [1, 65536] if tier == "quick" else [0, 1, 16383, 65536]
    for k in ks2:
        out.append(("same", dict(k=k, where=0, style=st())))
        if len(faults) > 1:
            out.append(("same", dict(k=k, where=2, style=st())))
    for k in ([0] + ks2):
        for where in ((1,) if k == 0 else (0, 1, 2)):
            out.append(("inc", dict(k=k, where=where, style=st(), depth=1, split=len(faults) > 1)))
    for k in kq:
        out.append(("inc", dict(k=k, where=1, style=st(), depth=2, split=False)))
        out.append(("inc", dict(k=k, where=0, style=st(), depth=2, split=len(faults) > 1)))
    for k in ([0] + kq):
        for where in ((1,) if k == 0 else (1, 2)):
            out.append(("line", dict(k=k, where=where, style=st(), n=5000, fname="")))
            out.append(("line", dict(k=k, where=where, style=st(), n=70001, fname="other.src")))
    if tier == "thorough":
        out.append(("line", dict(k=3, where=2, style="comment", n=1, fname="")))
        out.append(("line", dict(k=100, where=2, style="mixed", n=65535, fname="sub/dir/x.as")))
    for k in kq:
        for br in ("then", "else", "off"):
            out.append(("if", dict(k=k, where=2 if br != "then" else 1, style=st(), branch=br)))
        out.append(("ifinc", dict(k=k, where=2, style=st())))
    # a #line directive in conditional text: ignored unless the text is being read (every #if state of Include.tla)
    for br in ("formerly", "nested", "inactive", "active", "elseon"):
        out.append(("ifline", dict(k=0 if br != "active" else kq[0], where=2, style=st(), branch=br, n=500, fname="skipped.src")))
        if tier == "thorough":
            out.append(("ifline", dict(k=2, where=2, style=st(), branch=br, n=70001, fname="")))
        out.append(("incline", dict(k=k, where=1, style=st(), n=300, fname="gen.src")))
        out.append(("incline", dict(k=k, where=2, style=st(), n=7, fname="")))
    if len(faults) > 1 and phase == "sem":
        # two messages adjacent in the report with the same line number on different lines (spec/Report.tla)
        quick_adj = tier == "quick" and faults[0].kind != "undef"       # quick: two of the multi-fault families
        for k in ([] if quick_adj else [0, 2, 16384] if tier == "quick" else [0, 1, 2, 100, 16383, 16384, 60000]):
            # (k <= 65000: `inc' reads k lines twice, and TLC's 32-bit integers hold the packed word only for
            # serial line numbers below 2^17)
            for mode in ("inc", "line", "same", "rev"):
                out.append(("adj", dict(k=k, where=1, style=st(), mode=mode)))
    if not overflowing(faults):
        for k in ([0, 2] if tier == "quick" else [0, 2, 70000]):
            out.append(("collide", dict(k=k, where=2, style=st(), n=300)))
        if phase == "incl":
            for k in ([0, 2] if tier == "quick" else [0, 2, 70000]):
                out.append(("eofif", dict(k=k, where=1, style=st())))
    return out


QUICK_FULL = ("undef@None/lead", "undef@16383/mid", "undef@16384/lead", "undef@20000/mid", "syntax@100/lead")


class Interner(object):
    def __init__(self):
        self.tab = {}

    def __call__(self, s):
        return self.tab.setdefault(s, len(self.tab) + 1)


# style name -> (options, messages sorted, previews printed)
EXTRA_STYLES = {"nosort": (["-Mno-sort"], False, False), "preview": (["-Mpreview"], True, True), "m2": (["-M2"], True, False),
                "nosort+preview": (["-Mno-sort", "-Mpreview"], False, True)}


def styles_for(layout, faults):
    """the styles a case is compiled in, besides the default one and -Mno-source"""
    if layout in ("gen", "adj"):
        return ["nosort+preview"]       # the sorted report is the default run's
    if layout not in ("same", "eofif") and any(f.phase in ("incl", "scan") for f in faults):
        # reported while the includer is still filling the line table (not `eofif': as written the table entry
        # that shadows the included file's last line is made AFTER that line's message was previewed, and the
        # model decodes every report with the final table)
        return ["preview"]
    return []


def disk_facts(d, texts):
    """What the report can show: the number of lines of every file in the case's directory and the text of
    the lines named by the headings of the printed reports (looked up at the heading's OWN file and line)."""
    flen, cache, srcs = {}, {}, {}
    for root, _, files in os.walk(d):
        for f in files:
            if f.endswith((".as", ".src")):
                p = os.path.join(root, f)
                with open(p, "rb") as fh:
                    flen[os.path.relpath(p, d)] = fh.read().count(b"\n")
    for t in texts:
        for fn, ln in G.headings(t):
            if fn not in cache:
                p = os.path.join(d, fn)
                cache[fn] = open(p, errors="replace").read().split("\n")[:-1] if os.path.isfile(p) else None
            ls = cache[fn]
            srcs[(fn, ln)] = ls[ln - 1] if (ls is not None and 1 <= ln <= len(ls)) else None
    return flen, srcs


def compile_case(build, case):
    d = vlib.scratch("c15")
    try:
        G.render_case(case, d)
        outs = []
        for extra in [[], ["-Mno-source"]] + [EXTRA_STYLES[x][0] for x in case.get("styles", [])]:
            rc, so, se, to = vlib.aldor(build, extra + ["-Mno-emax", "-Fao", case["top"]], cwd=d, timeout=300)
            if to:
                raise vlib.MachineryError("compiler timed out on case %s" % case["label"])
            outs.append((rc, so.decode(errors="replace"), se.decode(errors="replace")))
        flen, srcs = disk_facts(d, [outs[0][1]] + [o[1] for o in outs[2:]])
        return outs, flen, srcs
    finally:
        import shutil
        shutil.rmtree(d, ignore_errors=True)


def observe(c, o, faults, it):
    """Project what the compiler printed for case c (o = compile_case's result)."""
    outs, flen, srcs = o
    # only the statements that are in this case's files can have produced a message (a family may hold a pool)
    present = {t["id"] for its in c["files"].values() for x in its for t in x["toks"]} | \
              {x["id"] for its in c["files"].values() for x in its if x["id"]}
    faults = [f for f in faults if f.i in present or f in c.get("pseudo", [])]
    c["obs"] = G.observations(outs[0][1], outs[1][1], faults, it)
    c["rc"] = tuple(x[0] for x in outs)
    c["flen"] = flen
    serial_mk = {ob["serial"]: ob["mk"] for ob in c["obs"]}
    c["order"] = [ob["mk"] for ob in c["obs"]]
    txi = Interner()                    # source texts: indices local to the case, 0 = none
    reps = []
    for (sort, preview), out in zip([(True, False)] + [EXTRA_STYLES[x][1:] for x in c.get("styles", [])], [outs[0]] + list(outs[2:])):
        pre, fin = G.report_obs(out[1], serial_mk, srcs, txi)
        reps.append({"sort": sort, "preview": preview, "pre": pre, "groups": fin})
    c["reps"] = reps
    c["raw"] = outs


def record(c, btx, bcol):
    rec = G.abstract_case(c)
    rec["obs"] = [{a: o[a] for a in ("mk", "file", "line", "ln", "col", "tx")} for o in c["obs"]]
    rec["btx"], rec["bcol"] = btx, bcol
    rec["flen"], rec["order"], rec["reps"] = c["flen"], c["order"], c["reps"]
    return rec


def trace_eval(cases, cfg, nchunk):
    """Run TraceSrcPos over the cases (split into chunks, one TLC process each).  -> {id: verdict}"""
    d = vlib.scratch("c15trace")
    chunks = [cases[i::nchunk] for i in range(nchunk)]
    chunks = [c for c in chunks if c]
    res = [None] * len(chunks)

    def one(i):
        p = os.path.join(d, "%s-%d.ndjson" % (cfg, i))
        vlib.write_ndjson(p, chunks[i])
        res[i] = vlib.tlc("TraceSrcPos", cfg, workers=1, timeout=1500, env={"TRACE": p}, extra=NOEXTRA, xmx="3g")
    ths = [threading.Thread(target=one, args=(i,)) for i in range(len(chunks))]
    for t in ths:
        t.start()
    for t in ths:
        t.join()
    verdicts = {}
    for i, r in enumerate(res):
        if r.error and r.violated != "NotDone":
            raise vlib.MachineryError("TLC %s chunk %d: %s" % (cfg, i, r.error))
        if r.violated != "NotDone":
            # an invariant other than the end marker: the required design itself broke on a case
            verdicts[("inv", i)] = {"violated": r.violated, "trace": r.trace_text}
        for s in r.printed:
            if isinstance(s, str) and s.startswith("VERDICT "):
                v = json.loads(s[len("VERDICT "):])
                verdicts[v["id"]] = v
    return verdicts, res


def prepare_replay(chk, tier, build):
    rng = random.Random(chk.seed)
    fams = families(tier, rng)
    cases = []
    famfaults = {}
    fams = [f + (None,) for f in fams] + gen_families(chk, tier, rng)
    for fi, (fkey, faults, phase, given) in enumerate(fams):
        famfaults[fi] = faults
        vs = given if given is not None else variants(tier, faults, phase, rng)
        if given is None and tier == "quick" and len(faults) == 1 and phase in ("sem", "syn") and fkey not in QUICK_FULL:
            # most single-fault families: the base layout + a seed-chosen eighth of the layouts
            vs = vs[:1] + [v for v in vs[1:] if rng.random() < 0.125]
        for vi, (lay, kw) in enumerate(vs):
            try:
                c = G.build(lay, faults, **kw)
            except G.Skip:
                continue
            c["id"] = len(cases) + 1
            c["styles"] = styles_for(lay, faults)
            c["fam"], c["famkey"], c["layout"], c["kw"], c["base"] = fi, fkey, lay, kw, (vi == 0)
            c["label"] = "%s | %s %s" % (fkey, lay, json.dumps(kw, sort_keys=True))
            c["spec"] = {"faults": [[f.kind, f.i, f.col, f.pad] for f in faults], "layout": lay, "kw": kw}
            cases.append(c)
    t0 = time.time()
    with ThreadPoolExecutor(max_workers=max(4, vlib.NCPU - 2)) as ex:
        outs = list(ex.map(lambda c: compile_case(build, c), cases))
    chk.extra["compile_wall_s"] = round(time.time() - t0, 1)

    # project the compiler's output; texts are interned per family, the base layout first
    interners, base = {}, {}
    recs = []
    for c, o in zip(cases, outs):
        faults = famfaults[c["fam"]] + c["pseudo"]
        it = interners.setdefault(c["fam"], Interner())
        observe(c, o, faults, it)
        c["shown"] = c.pop("raw")[0][1][-2500:]
        if c["base"]:
            base[c["fam"]] = c
    for c in cases:
        b = base[c["fam"]]
        ids = [f.i for f in famfaults[c["fam"]]] + [f.i for f in c["pseudo"]]
        top = max(ids) if ids else 0
        btx, bcol = [0] * top, [0] * top
        for o in b["obs"]:
            if 1 <= o["mk"] <= top:
                btx[o["mk"] - 1], bcol[o["mk"] - 1] = o["tx"], o["col"]
        own = {o["mk"]: o for o in c["obs"]}
        for f in c["pseudo"]:            # not present in the base layout: its own text is the reference
            if f.i in own:
                btx[f.i - 1], bcol[f.i - 1] = own[f.i]["tx"], own[f.i]["col"]
        recs.append(record(c, btx, bcol))
    return cases, recs


def evaluate_replay(chk, tier, cases, recs):
    nchunk = 4 if tier == "quick" else 8
    box = {}

    def ev(cfg):
        box[cfg] = trace_eval(recs, cfg, nchunk)
    ths = [threading.Thread(target=ev, args=(cfg,)) for cfg in ("TraceSrcPosReq", "TraceSrcPosAsw")]
    for t in ths:
        t.start()
    for t in ths:
        t.join()
    vreq, rreq = box["TraceSrcPosReq"]
    vasw, rasw = box["TraceSrcPosAsw"]
    for cfg, rs in (("TraceSrcPosReq", rreq), ("TraceSrcPosAsw", rasw)):
        tot = vlib.TlcResult()
        tot.states, tot.distinct, tot.wall = sum(r.states for r in rs), sum(r.distinct for r in rs), max(r.wall for r in rs)
        chk.add_tlc(cfg, tot)
    for k, v in list(vreq.items()):
        if isinstance(k, tuple):
            # TLC stopped in that chunk: the required design itself is not faithful on a generated case
            chk.violation("required design violates %s at the real widths on a replay case" % v["violated"], v["trace"],
                          key={"model": "TraceSrcPosReq", "inv": v["violated"]})
            vreq["broken"] = True
    return cases, recs, vreq, vasw


MAX_REPLAYS = 25        # violations written out in full; the rest are only counted


def recheck(build, cands):
    """DESIGN.md 4.3: a rejection that is not the documented as-written behaviour is reported only if it
    repeats.  Re-render, re-compile and re-evaluate the candidates (with their base layouts); returns
    {case id: (required verdict, as-written verdict, observations)} of the second execution."""
    recs, back = [], {}
    for n, c in enumerate(cands):
        base, again, two = _one_case(build, c["spec"], cid=2 * n + 1)
        recs += two
        back[c["id"]] = (2 * n + 2, again)
    vreq, _ = trace_eval(recs, "TraceSrcPosReq", 2)
    vasw, _ = trace_eval(recs, "TraceSrcPosAsw", 2)
    return {cid: (vreq[i], vasw[i], again) for cid, (i, again) in back.items()}


def accepted(v):
    """the printed messages are the required ones AND every printed report is the required report"""
    return v["match"] and v["rmatch"]


def judge(chk, cases, recs, vreq, vasw, build=None):
    nbad = 0
    classes = {}
    for cid, v in vreq.items():
        if not isinstance(cid, tuple) and cid != "broken" and not v["rfaith"]:
            chk.violation("the required design's report differs from the required report on replay case %s" % cid, v,
                          key={"model": "TraceSrcPosReq", "inv": "RepFaithful"})
            break
    # second execution of the first unexpected rejections (harness flakiness must not raise an alarm)
    odd = [c for c in cases if c["id"] in vreq and c["id"] in vasw and not accepted(vreq[c["id"]]) and not accepted(vasw[c["id"]])]
    second = recheck(build, odd[:MAX_REPLAYS]) if (odd and build) else {}
    flaky = []
    for c, rec in zip(cases, recs):
        cid = c["id"]
        if cid not in vreq or cid not in vasw:
            if vreq.get("broken"):
                continue        # not evaluated: TLC stopped at an invariant violation reported above
            raise vlib.MachineryError("no TLC verdict for case %d (%s)" % (cid, c["label"]))
        vr, va = vreq[cid], vasw[cid]
        if cid in second:
            vr2, va2, again = second[cid]
            obs2 = again["obs"]
            if accepted(vr2) or accepted(va2):
                flaky.append({"case": c["label"][:300], "first": rec["obs"], "second": [{a: o[a] for a in ("mk", "file", "line", "ln", "col")} for o in obs2]})
            vr, va = vr2, va2
            c = dict(c, obs=obs2, reps=again["reps"], shown=again["raw"][0][1][-2500:])
        faults = c["famkey"]
        nontrivial = vr["nplanted"] > 0
        chk.case((c["famkey"], c["layout"], json.dumps(c["kw"], sort_keys=True)), nontrivial=nontrivial)
        chk.traces += 1
        if len(chk.samples) < 4 and (cid % 97 == 1):
            chk.sample({"case": c["label"][:300], "required": vr["expect"], "observed": rec["obs"], "required_report": vr["report"],
                        "observed_report": rec["reps"][0]["groups"], "verdict": "match" if accepted(vr) else "MISMATCH"})
        if accepted(vr):
            continue
        if accepted(va):
            cause = "+".join(x for x, n in (("colovf", va["unfaithful_ovf"]), ("linetable", va["unfaithful_other"]),
                                            ("nohead", va["nohead"])) if n) or "none"
            key = {"shape": "as-written", "cause": cause}
            if cause != "colovf":
                key["layout"] = c["layout"]
        else:
            key = {"shape": "other", "family": faults, "layout": c["layout"], "kw": c["kw"]}
        classes[json.dumps(key, sort_keys=True)] = classes.get(json.dumps(key, sort_keys=True), 0) + 1
        what = "%s differ from the required ones: %s" % ("diagnostic positions" if not vr["match"] else "the printed reports (headings, echoed source, carets)", c["label"][:400])
        detail = {"case": c["label"], "required": vr["expect"], "as_written_model": va["expect"],
                  "required_report": vr["report"], "observed_reports": c["reps"], "printed": c.get("shown", ""),
                  "observed": [{a: o[a] for a in ("mk", "file", "line", "ln", "col", "text")} for o in c["obs"]],
                  "files": {n: [{a: b for a, b in it.items() if a != "_texts"} for it in its] for n, its in c["files"].items()},
                  "rc": c["rc"], "spec": c["spec"]}
        if key["shape"] == "other" and nbad >= MAX_REPLAYS:
            nbad += 1
            continue
        if chk.violation(what, detail, key=key):
            nbad += 1
    chk.extra["mismatch_classes"] = dict(list(classes.items())[:40])
    chk.extra["new_violations_total"] = nbad
    chk.extra["not_repeated_on_second_execution"] = flaky[:10]
    return nbad


def private_build():
    """The build cache is shared and keeps only a few entries; a long run must not lose its compiler
    to a concurrent build, so the executable is copied into this run's scratch directory."""
    import shutil
    for _ in range(3):
        b = vlib.vbuild()
        try:
            d = vlib.scratch("c15bin")
            shutil.copy2(b["aldor"], os.path.join(d, "aldor"))
            return dict(b, aldor=os.path.join(d, "aldor"))
        except (IOError, OSError):
            continue
    raise vlib.MachineryError("the compiler build disappeared from the cache three times")


def private_tmp():
    """All scratch directories of this run go under one private root (other jobs on the machine clean
    /tmp/aldor-verif-* while a long TLC run still needs its metadir)."""
    import tempfile
    root = tempfile.mkdtemp(prefix="c15-", dir=os.environ.get("VERIF_TMP", "/tmp"))
    vlib._scratch_dirs.append(root)
    os.environ["VERIF_TMP"] = root


def run(chk, tier):
    private_tmp()
    build = private_build()
    if tier == "quick":
        # the model runs and the compilations are independent: overlap them
        box = {}

        def models():
            try:
                run_models(chk, tier)
                run_apalache(chk, tier)
            except BaseException as e:      # re-raised in the main thread
                box["err"] = e
        th = threading.Thread(target=models)
        th.start()
        prep = prepare_replay(chk, tier, build)
        th.join()
        if "err" in box:
            raise box["err"]
    else:
        run_models(chk, tier)
        run_apalache(chk, tier)
        prep = prepare_replay(chk, tier, build)
    cases, recs, vreq, vasw = evaluate_replay(chk, tier, *prep)
    judge(chk, cases, recs, vreq, vasw, build)
    chk.rule = ("model: every reachable state of Include (files chosen line by line, <=3 files, <=12 lines, widths 2/3); "
                "replay: one case per (fault family = planted fault lines with their columns) x (layout: same file / included / "
                "nested include / #line / #line+name / #if branches / #line inside include / colliding #line names / EOF in #if) x "
                "(k inserted code-free lines, insertion point, line style); non-trivial = at least one planted diagnostic is required; "
                "report: every case's default-style report (+ -Mno-sort, -Mpreview for the layouts `adj' and `gen') is compared with "
                "Report.tla; `gen' = final states of ReportGen.tla with two remembered lines of equal line number (all within the "
                "bounds are enumerated by TLC; a seed-chosen sample spread over the layout classes is replayed, each remembered "
                "line carrying 1-3 planted statements or only one clashing pair of lines)")
    chk.exhaustive = False
    chk.assumptions += [
        "the line field limit (2^48-1 global lines) cannot be reached; at scaled widths TLC shows PosFaithful needs g < 2^LNO-1",
        "message texts are compared with the texts printed for the family's base layout (same compiler), not with a fixed catalogue",
        "the column of the offending token within a fault line is part of the abstract case (the renderer pads to reach it)",
        "files named only by #line exist as stand-ins (the default format aborts when such a file is missing: part of finding nohead)",
        "the order of generation of the messages is taken from the printed serial numbers (the specification does not model the phases)",
        "a heading followed by an empty text and a heading without text look the same and are not distinguished",
    ]
    chk.extra["replay_cases"] = len(cases)
    chk.extra["ks"] = KS


def _one_case(build, spec, cid=1):
    faults = [G.Fault(kd, i, col=col, pad=pad) for kd, i, col, pad in spec["faults"]]
    base = G.build("same", faults, k=0, where=1, style="blank")
    c = G.build(spec["layout"], faults, **spec["kw"])
    out = []
    it = Interner()
    for n, x in enumerate((base, c)):
        x["id"], x["label"] = cid + n, "replay"
        if x is c:
            x["styles"] = styles_for(spec["layout"], faults)
        observe(x, compile_case(build, x), faults + x["pseudo"], it)
    ids = [f.i for f in faults] + [f.i for f in c["pseudo"]]
    recs = []
    for x in (base, c):
        btx, bcol = [0] * max(ids), [0] * max(ids)
        for o in base["obs"] + [o for o in x["obs"] if o["mk"] in [f.i for f in x["pseudo"]]]:
            if 1 <= o["mk"] <= max(ids):
                btx[o["mk"] - 1], bcol[o["mk"] - 1] = o["tx"], o["col"]
        recs.append(record(x, btx, bcol))
    return base, c, recs


def replay(d):
    """bin/verif replay C15 <file>: rebuild the case, run the compiler, show TLC's verdicts."""
    spec = d["detail"]["spec"]
    build = private_build()
    base, c, recs = _one_case(build, spec)
    print(c["raw"][0][1][-1500:])
    print(c["raw"][1][1][-1500:])
    vreq, _ = trace_eval(recs, "TraceSrcPosReq", 1)
    vasw, _ = trace_eval(recs, "TraceSrcPosAsw", 1)
    for x in c["raw"][2:]:
        print(x[1][-1500:])
    for name, v in (("required", vreq[2]), ("as written", vasw[2])):
        print("%-10s match=%s report-match=%s expect=%s" % (name, v["match"], v["rmatch"], json.dumps(v["expect"])))
        print("%-10s report=%s" % ("", json.dumps(v["report"])))
    print("observed  %s" % json.dumps(recs[1]["obs"]))
    print("observed reports  %s" % json.dumps(recs[1]["reps"]))
    return 0 if accepted(vreq[2]) else 1


def selftest():
    """Corrupt one recorded field at a time in cases that are accepted and show that TLC rejects each
    corrupted record (python3 -c 'import checks.c15 as c; c.selftest()' from /verif with lib on the path)."""
    build = private_build()
    spec = {"faults": [["undef", 1, None, "lead"], ["strlit", 2, 100, "lead"], ["macro", 3, None, "lead"]],
            "layout": "inc", "kw": dict(k=2, where=1, style="mixed", depth=2, split=True)}
    base, c, recs = _one_case(build, spec)
    good = recs[1]
    muts = []

    def m(name, f):
        r = json.loads(json.dumps(good))
        f(r)
        r["id"] = 100 + len(muts)
        muts.append((name, r))
    m("col+1", lambda r: r["obs"][0].__setitem__("col", r["obs"][0]["col"] + 1))
    m("line+1 (file-line field)", lambda r: r["obs"][1].__setitem__("line", r["obs"][1]["line"] + 1))
    m("ln-1 ([L C] field)", lambda r: r["obs"][1].__setitem__("ln", r["obs"][1]["ln"] - 1))
    m("file name", lambda r: r["obs"][0].__setitem__("file", "top.as" if r["obs"][0]["file"] != "top.as" else "inc2.as"))
    m("text", lambda r: r["obs"][2].__setitem__("tx", 77))
    m("message dropped", lambda r: r["obs"].pop())
    m("message duplicated", lambda r: r["obs"].append(dict(r["obs"][0])))
    m("foreign message", lambda r: r["obs"].append(dict(r["obs"][0], mk=0, tx=78)))
    m("abstract case: one more inserted line than rendered", lambda r: r["files"]["inc2.as"][1].__setitem__("n", r["files"]["inc2.as"][1]["n"] + 1))
    # the report (default style): heading, echoed text, carets, leads, grouping
    g0 = lambda r: r["reps"][0]["groups"]
    m("report: heading names another file", lambda r: g0(r)[0].__setitem__("file", "top.as" if g0(r)[0]["file"] != "top.as" else "inc2.as"))
    m("report: heading line+1", lambda r: g0(r)[1].__setitem__("line", g0(r)[1]["line"] + 1))
    m("report: echoed text is not that line's text", lambda r: g0(r)[0].__setitem__("echo", g0(r)[0]["echo"] + 50))
    m("report: caret one column to the right", lambda r: g0(r)[0]["carets"].__setitem__(0, g0(r)[0]["carets"][0] + 1))
    m("report: caret line not under the echoed text", lambda r: g0(r)[0].__setitem__("align", False))
    m("report: lead column", lambda r: g0(r)[0]["leads"][0].__setitem__("col", g0(r)[0]["leads"][0]["col"] + 1))
    m("report: two groups merged under the first heading",
      lambda r: (g0(r)[0]["leads"].extend(g0(r)[1]["leads"]), g0(r)[0]["carets"].extend(g0(r)[1]["carets"]), g0(r).pop(1)))
    m("report: heading missing", lambda r: g0(r)[0].update(head=False, file="", line=-1, echo=0, src=0))
    m("report: groups in another order", lambda r: g0(r).reverse())
    v, _ = trace_eval([good] + [r for _, r in muts], "TraceSrcPosReq", 1)
    ok = accepted(v[good["id"]])
    print("uncorrupted record accepted:", ok)
    for name, r in muts:
        rej = not accepted(v[r["id"]])
        ok = ok and rej
        print("corrupted (%s): %s" % (name, "rejected" if rej else "ACCEPTED"))
    vlib.cleanup_scratch()
    return ok


SELFTEST_NOTES = """
Binding demonstration (2026-10-04, scratch worktrees of /repo under /tmp, removed afterwards; quick tier,
`VERIF_SRC=<worktree>/aldor/aldor/src bin/verif check C15 --tier quick`):

 mutation (one line each, all compile)                                              result
 m1 include.c inclHandleLine: `lineNumber = lno - 1` -> `lno` (#line off by one)     CAUGHT  402 new violations (line/incline layouts)
 m2 srcpos.c sposLine+sposFile: `gLineNo < tbl[i+1].glno` -> `<=` (segment boundary) CAUGHT   57 new violations (first line after a file change)
 m3 srcpos.c SPOS_CNO_NBITS 14 -> 13                                                 CAUGHT  870 new violations (columns 16383 no longer fit)
 m4 scan.c scTokPos(): column + 1                                                    CAUGHT 1252 new violations (every column)
 m5 include.c inclLine: lines skipped by an inactive #if not counted in lineNumber   MISSED by the first version (the line table maps by serial
    number, so the file's own count is only visible when a new segment starts after the skipped text); layout `ifinc' (inactive #if,
    then #include, then the faults) was added for it                                 CAUGHT   61 new violations
 m6 include.c inclFile: `fileState.lineNumber = 0` removed (included file continues   CAUGHT  423 new violations
    the includer's numbering)
 All were reported with shape "other" (not the as-written model), i.e. none was masked by a known finding.

 candidate repairs (hooks/fix-C15-*.diff), each run alone removes exactly its class and nothing else appears:
   fix-C15-column-saturate.diff      colovf 617 -> 0
   fix-C15-line-table-segment.diff   linetable/collide 34 -> 0
   fix-C15-eof-in-if-position.diff   linetable/eofif 4 -> 0
 all three together: `C15 quick: held`, no KNOWN-FINDING line, mismatch_classes = {}.

 corrupted records (checks.c15.selftest(): one accepted case, one field changed at a time, TraceSrcPosReq must reject):
   col+1, line+1 (file-line field), ln-1 ([L C] field), file name, text index, message dropped, message duplicated,
   foreign message added, abstract case with one more inserted line than rendered: all 9 rejected; the uncorrupted record accepted.

 second execution: an unexpected rejection (neither required nor as-written) is re-rendered, re-compiled and re-evaluated once
 (recheck()); one such flake was seen in 17137 thorough cases under machine load ~200 (the -M no-source run printed nothing) and did
 not repeat; mutant m4 re-run with the recheck in place: still VIOLATED (683), nothing classified as flaky.

 thorough tier measured (machine load 150-230, so wall times are 4-6x an idle machine): models 1836 s -- IncludeReq6 5.1M states,
 IncludeAswFit6 3.7M, IncludeReqIF7 1.3M (nesting 2), IncludeReq5/AswFit5/AswPackFit 0.4-0.5M each, IncludeShiftReq3f 0.53M,
 IncludeShiftReq4/Asw 0.2M each, all hold; replay 17137 cases (153 families x ~110 layouts) compiled in 940 s, evaluated by TLC in
 110 s: 7204 colovf + 339 collide + 6 eofif rejections, all exactly the as-written model; 0 others.  The same 17137 cases against
 the three candidate patches together: 0 rejections.  C15_DEEP=1 adds IncludeReqIL7 (about 2*10^7 states).

 seeds: VERIF_SEED=1, 5, 777 on the unchanged tree: held (exit 0) with the three KNOWN-FINDING lines.
 coverage: IncludeReqMac runs with -coverage 1; every includer action must be generated, and taken except that AAssert/AUnknown
 lead to identical states (one of the two counts).
 model self-checks: the four expected-violation configurations (IncludeAswPack, IncludeAswTbl, IncludeAswEof, IncludeNoLimit) must
 be violated, otherwise the run is a machinery error.

 ---- strengthening round (2026-10-04): the REPORT of the default message style (spec/Report.tla, ReportGen.tla) ----
 class added: comsg.c sorts the messages, groups consecutive ones of one source line under ONE heading `"file", line N: <text>',
 draws the carets and prints `[Ln Cm]' leads; the heading is the only place that names the file.  Before, only the positions of
 the individual messages were compared (-M no-source file/line + [L C] of the default run).  Now every case's default-style output
 is parsed into groups (heading file/line, echoed text vs the text of that line of THAT file on disk, caret columns relative to
 the echoed text, leads, grouping and order) and TraceSrcPos compares it with Report(T, messages in order of generation, ...);
 layouts `gen' (TLC-enumerated: two remembered lines with the same line number in different files / renumbered stretches / three
 files in thorough) and `adj' (the same at k = 0..70000) are also replayed with -Mno-sort and -Mpreview.
 seeded changes (bin/seedtest, quick tier):
   C15-2 (comsgReportFile groups by sposLine instead of sposGlobalLine)  was MISSED, now CAUGHT: 36+ rejections (gen 31, inc 4, incline 1
         before `adj' existed); C15-1 and C15-3 still CAUGHT.
 own mutations of the report code (one line each, all compile; bin/seedtest):
   ma comsgPrintDots `cno = sposChar(spos) + 1' -> `sposChar(spos)'                      CAUGHT (gen, eofif: two messages in one column)
   mb comsgPrintLine returns cc - 1 (caret line one column to the left)                  CAUGHT (every layout: align)
   mc sposLineText `lastlno = lno + 1' -> `lno' (cache off by one: next line's text)     CAUGHT (echo # text of the named line)
   md comsgReportFile merges messages of consecutive global lines under one heading      CAUGHT (adj, gen)
 model self-checks: ReportLline (grouping by local line number) and ReportAswHead (heading as written) must be violated.
 corrupted records: 9 more in selftest() (heading file, heading line, echo, caret, alignment, lead column, merged groups, heading
 missing, group order): all rejected.
 finding (open): no heading -- hence no file name -- when the renumbered line cannot be read; default style aborts when the file named
 by #line is missing (key cause=nohead; hooks/fix-C15-heading-without-source.diff: with it `C15 quick: held' and no case
 needs the as-written model except eofif).
 TraceSrcPosAsw.cfg now describes the tree as it is (column packer and table policy repaired, EOF-in-#if and heading as written).
 measured: quick 84 s wall at machine load 70 (the version before this round: 53 s idle / 120 s against 146 s when both ran side by
 side at load 200), 897 cases (100 gen, 24 adj), ReportReq 10k states, ReportGen 179k states -> 867 layouts in 209 classes;
 thorough 25 min: + ReportReq5 77k, ReportReq3f 264k states (3 files), ReportGen3/ReportGenL 12257 layouts in 1895 classes of which
 2500 replayed (every class), adj at k up to 60000 for every multi-fault family, 19918 cases, all accepted (5016 only through the
 as-written model: nohead; 6 eofif); unchanged tree held with VERIF_SEED 1, 2, 3 and default.
 TLC's 32-bit integers hold the packed word at the real widths only for serial line numbers < 2^17: a case must read < 131072 lines.
"""
