"""C08 -- Compiler output is a function of its input only."""
import json
import os
import sys
import time

import vlib

sys.path.insert(0, os.path.join(vlib.VERIF, "gen"))
import detobs  # noqa: E402

META = {
    "title": "Compiler output is a function of its input only",
    "level": "model_checking",
    "technique": "DetCfg.tla (configuration machine: collector flag / forced collection schedule, ASLR, working directory, environment, "
                 "batched or separate invocation, repetition) enumerated by TLC gives the configurations; every emitted file and the "
                 "message stream of every input under every chosen configuration is an Observe event validated by TLC against the Obs "
                 "monitor (TraceDet.tla): a second observation of an input that differs from the first is rejected.  Every output is "
                 "observed as its full text and through the projections of DetCfg!Projections (functions of the text that the one "
                 "recorded defect of the batch axis, a renumbering of lexical slots, cannot change), each an input of its own; "
                 "DetCfg also enumerates the batch compositions (which kind of file precedes which in one invocation)",
    "design_ref": "DESIGN.md 3.11 (Obs), 5 C08, Appendix A, D",
    "level_text": "TLC enumerates the whole configuration space of DetCfg.tla (1584 configurations, invariants on the concretisation, the "
                  "star around the baseline covers every axis value) and checks the Obs monitor against its specification (ObsMC.tla), then "
                  "exports it; the check realises the baseline, every configuration that differs from it on one axis and seeded "
                  "combinations, on library-free corpus files, generated programs (well- and ill-typed) and corpus programs, requesting "
                  "-Fao -Ffm -Fc -Flsp -Fjava. Each (file, output kind) is an input of the Obs monitor and each run contributes its "
                  "content digest; TLC (TraceDet.tla) replays all observations, checks that every event carries a valid configuration, "
                  "and reports each rejected Observe with the two configurations and the axes on which they differ.  Batch axis: "
                  "DetCfg enumerates all sequences of 2..4 (file kind, representative) over 8 kinds (library-free, ordinary program, "
                  "many literals, Foreign C imports from two overlapping header sets, a user of one header, assertions/piles/"
                  "directory directives with sensors in every other file, diagnostics); quick realises all 72 two-file batches "
                  "(every kind directly before every kind, the same file twice, two files of a kind) and a seeded sample of longer "
                  "ones, thorough all 704 3-file batches and 400 4-file ones; per output 3-7 projections (c: #include lines, "
                  "declarations, structs, functions, literals, canonical token text, gcc -fsyntax-only; fm/lsp: tags, globals, "
                  "constants, formats, literals, progs, canonical form; java: imports, members, literals, canonical text; ao: "
                  "section table, identity sections, code-section sizes) are observed in the baseline and in every batched run.",
    "level_note": "An equality-between-runs property: there is no independent expected value, the monitor compares runs. Forced "
                  "collection with periods below 50 is applied to library-free inputs only and periods below 1000 to small programs "
                  "only (cost). Batched invocations are additionally observed under an input of their own, so that the other axes are "
                  "still checked where the batched/separate comparison is a known finding.",
}


def load_configs(chk):
    r = vlib.tlc("DetCfg", "DetCfg", workers=4, timeout=300, coverage=True)
    chk.add_tlc("DetCfg", r)
    if r.violated:
        chk.violation("DetCfg.tla violates %s" % r.violated, r.trace_text, key={"model": "DetCfg", "inv": r.violated})
    confs = [json.loads(l[7:]) for l in r.printed if isinstance(l, str) and l.startswith("CONFIG ")]
    n = [l.split() for l in r.printed if isinstance(l, str) and l.startswith("NCONFIGS ")]
    if not n or len(confs) != int(n[0][1]) or len({c["id"] for c in confs}) != len(confs):
        raise vlib.MachineryError("DetCfg.tla exported %d configurations, the space has %s" % (len(confs), n and n[0][1]))
    if sum(1 for c in confs if c["dist"] <= 1) != int(n[0][3]):
        raise vlib.MachineryError("DetCfg.tla: exported star differs from Star")
    for a in ("ChooseGc", "ChooseOther", "Export", "AddFile", "ExportBatch"):
        if r.coverage.get(a, (0, 0))[1] == 0:
            raise vlib.MachineryError("DetCfg action %s never evaluated" % a)
    # the batch compositions and the views (full text + projections) of every output kind come from the same run
    batches = [json.loads(l[6:]) for l in r.printed if isinstance(l, str) and l.startswith("BATCH ")]
    if len({b["id"] for b in batches}) != len(batches) or not batches:
        raise vlib.MachineryError("DetCfg.tla exported %d batch compositions, %d distinct" % (len(batches), len({b["id"] for b in batches})))
    views = [json.loads(l[6:]) for l in r.printed if isinstance(l, str) and l.startswith("VIEWS ")]
    if len(views) != 1:
        raise vlib.MachineryError("DetCfg.tla did not export its projections")
    for kind, names in detobs.detproj.PROJECTIONS.items():
        if sorted(views[0].get(kind, [])) != sorted(names):
            raise vlib.MachineryError("projections of %s: the specification has %s, the binding computes %s" %
                                      (kind, sorted(views[0].get(kind, [])), sorted(names)))
    chk.extra["batch_compositions_in_model"] = len(batches)
    return confs, batches


def check_monitor(chk, tier):
    """The Obs monitor against its own specification (exhaustive, small constants) + a reachability probe."""
    cfg = "ObsMC" if tier == "quick" else "ObsMC5"
    r = vlib.tlc("ObsMC", cfg, workers=4 if tier == "quick" else vlib.NCPU, timeout=900)
    chk.add_tlc(cfg, r)
    if r.violated:
        chk.violation("the Obs monitor violates %s" % r.violated, r.trace_text, key={"model": "ObsMC", "inv": r.violated})
    p = vlib.tlc("ObsMC", "ObsMCProbe", workers=2, timeout=300)
    if p.violated != "NeverRejects":
        raise vlib.MachineryError("ObsMC probe: a rejection is not reachable in the monitor model (%s)" % (p.error or p.violated))
    chk.tlc_runs.append({"name": "ObsMCProbe", "generated": p.states, "distinct": p.distinct, "wall_s": round(p.wall, 2),
                         "expected_violation": "NeverRejects"})


def signature(runner, kind, view, key, dg1, dg2):
    """What kind of difference the two kept contents show.  It identifies a recorded finding; the verdict itself is TLC's.
    msg: 'note-number' if equal up to the numbers of the notes.  c (any view): 'bigint-number' if equal up to the numbers in
    the names of the big-integer / raw-record-format constants (GA<n>, GB<n>, GRRFmt<n>).  ao: 'syme-codes' if only the
    symbol-meaning section differs and its length is the same, otherwise 'sections'.  Everything else: 'text'."""
    import re
    p1, p2 = runner.kept.get((key, tuple(dg1))), runner.kept.get((key, tuple(dg2)))
    if not p1 or not p2:
        return "absent" if detobs.ABSENT in (list(dg1), list(dg2)) else "unknown"
    a, b = (open(p, "rb").read() for p in (p1, p2))
    if kind == "msg":
        return "note-number" if re.sub(rb"Note \d+", b"Note N", a) == re.sub(rb"Note \d+", b"Note N", b) else "text"
    if kind == "c":
        pat = re.compile(rb"\b(GA|GB|GRRFmt)\d+")
        na, nb = pat.sub(rb"\1N", a), pat.sub(rb"\1N", b)
        if view == "decls":       # a sorted set of lines: the names decide the order
            na, nb = sorted(na.splitlines()), sorted(nb.splitlines())
        return "bigint-number" if na == nb else "text"
    if kind == "ao" and view == "text":
        sa, sb = detobs.detproj.ao_sections(a), detobs.detproj.ao_sections(b)
        if [n for n, _ in sa] == [n for n, _ in sb] and all(x == y or (n == "syme" and len(x) == len(y)) for (n, x), (_, y) in zip(sa, sb)):
            return "syme-codes"
        return "sections"
    return "text"


def parse_input(s):
    parts = s.split("|")
    if len(parts) == 2 and parts[1] == "exit":
        return {"file": parts[0], "kind": "exit", "view": "text", "scope": "group"}
    kind, _, view = parts[1].partition(":")
    return {"file": parts[0], "kind": kind, "view": view or "text", "scope": "in-batch" if len(parts) > 2 else "file"}


def run(chk, tier):
    b = vlib.vbuild()
    wd = vlib.scratch("c08")
    confs, batches = load_configs(chk)
    check_monitor(chk, tier)
    groups = detobs.make_inputs(chk.seed, tier, batches)
    pairs, used = detobs.plan(confs, groups, tier, chk.seed)
    runner = detobs.Runner(b, wd)
    runner.check_aslr_switch()
    t0 = time.time()
    by_input = detobs.run_all(runner, pairs, vlib.NCPU)
    t_run = time.time() - t0
    nchunks = 8 if tier == "quick" else 14
    paths = detobs.write_chunks(by_input, wd, nchunks)
    t0 = time.time()
    res, dets = detobs.validate(paths, "TraceDet", nproc=nchunks)
    t_tlc = time.time() - t0
    nev = 0
    disagreements = []
    for p, r, det in zip(paths, res, dets):
        chk.add_tlc("TraceDet:" + os.path.basename(p), r)
        if r.violated:
            # ValidCfgs / ObsStable / FirstStays: the trace itself is malformed -> the harness is broken
            raise vlib.MachineryError("trace %s rejected by %s (harness defect): %s" % (p, r.violated, r.trace_text[:1500]))
        if det is None:
            raise vlib.MachineryError("TraceDet did not reach the end of %s: %s" % (p, r.out[-1500:]))
        if det["invalid"]:
            raise vlib.MachineryError("%d events of %s carry a configuration outside DetCfg" % (det["invalid"], p))
        nev += det["events"]
        disagreements += det["disagreements"]
    chk.traces += len(pairs)
    ninputs = len(by_input)
    # every input must have been observed at least twice, otherwise the monitor checked nothing for it
    single = [k for k, v in by_input.items() if len(v) < 2]
    if single and not runner.hangs:
        raise vlib.MachineryError("inputs observed only once: %s" % single[:5])
    chk.extra["inputs_observed_once"] = len(single)      # only possible after invocations that did not terminate
    for k, v in by_input.items():
        if len(v) >= 2:
            chk.case(k, nontrivial=any(e["digest"] != detobs.ABSENT for _, e in v))
    # ---- report the rejected observations (the verdicts are TLC's; here they are only keyed and explained)
    classes = {}
    gid_of = {i.name: g for g in groups for i in g.inputs}
    gid_of.update({g.gid: g for g in groups})
    for d in disagreements:
        pi = parse_input(d["input"])
        axes = sorted(d["axes"])
        # the two observations: the first one of the input and the rejected one (configuration + the run it was made in)
        ev_first = by_input[d["input"]][0][1]
        ev_other = next(e for i, e in by_input[d["input"]] if i == d["cfg"] and e.get("run", "") == d.get("run", "")
                        and e["digest"] != ev_first["digest"])
        evs = {d["first"]: ev_first, d["cfg"]: ev_other}
        g_other = gid_of.get(d.get("run")) or gid_of.get(pi["file"])
        g_first = gid_of.get(ev_first.get("run")) or gid_of.get(pi["file"])
        base_key = "|".join(d["input"].split("|")[:2])
        if pi["kind"] != d["kind"] or pi["view"] != d["proj"]:
            raise vlib.MachineryError("event fields of %s say %s/%s" % (d["input"], d["kind"], d["proj"]))
        # view = "text" (the whole output) or the projection that differs; `renumbering` is the specification's statement
        # (DetCfg!RenumberingMayExplain) whether the recorded renumbering of lexicals could explain the difference at all
        key = {"kind": pi["kind"], "view": pi["view"], "renumbering": d["renumbering"], "axes": axes, "image": d["image"],
               "scope": pi["scope"], "file": pi["file"], "cfg": d["cfg"], "first": d["first"]}
        gk = g_other
        if g_other is not None and g_other.comp is not None:
            # a batch composition of the family: which kinds of file were compiled before this one in the invocation
            names = [i.name for i in g_other.inputs]
            upto = max((k for k, n in enumerate(names) if n == pi["file"]), default=len(names))
            key["batch"] = g_other.comp["id"]
            key["preceded_by"] = sorted({f["kind"] for f in g_other.comp["files"][:upto]})
        if gk is not None:
            if pi["kind"] == "exit":
                key["origins"] = [i.origin for i in gk.inputs]
            else:
                key["origin"] = next((i.origin for i in gk.inputs if i.name == pi["file"]), None)
        if pi["kind"] != "exit":
            # what kind of difference (identifies the finding; the verdict itself is TLC's)
            key["sig"] = signature(runner, pi["kind"], pi["view"], base_key, evs[d["first"]]["digest"], evs[d["cfg"]]["digest"])
        ck = (pi["kind"], pi["view"], tuple(axes), pi["scope"])
        ent = classes.setdefault(ck, {"kind": pi["kind"], "view": pi["view"], "axes": axes, "scope": pi["scope"], "count": 0, "files": []})
        ent["count"] += 1
        if pi["file"] not in ent["files"] and len(ent["files"]) < 8:
            ent["files"].append(pi["file"])
        g = g_other
        detail = {"input": d["input"], "first": d["first"], "other": d["cfg"], "axes": axes,
                  "digest_first": evs[d["first"]]["digest"], "digest_other": evs[d["cfg"]]["digest"],
                  "run_first": runner.commands.get((g_first.gid, d["first"])) if g_first else None,
                  "run_other": runner.commands.get((g.gid, d["cfg"])) if g else None,
                  "origin": next((i.origin for i in (g.inputs if g else []) if i.name == pi["file"]), None),
                  "difference": detobs.describe_difference(runner, base_key, evs[d["first"]]["digest"], evs[d["cfg"]]["digest"])
                  if pi["kind"] != "exit" else "exit status (file scope: 0 = every file succeeded; in-batch: the status itself) %s / %s" % (evs[d["first"]]["digest"][0], evs[d["cfg"]]["digest"][0])}
        if g:
            detail["sources"] = {i.name: i.text for i in g.inputs}
            detail["files"] = [i.name for i in g.inputs]
            detail["options"] = g.opts
        chk.violation("%s%s of %s differs between [%s] and [%s] (axes: %s%s)" %
                      (pi["kind"], "" if pi["view"] == "text" else " (projection `%s')" % pi["view"], pi["file"], d["first"], d["cfg"],
                       ",".join(axes), ", " + pi["scope"] if pi["scope"] != "file" else ""),
                      detail, key=key)
    # ---- evidence
    chk.extra["configurations_in_model"] = len(confs)
    chk.extra["configurations_realised"] = len(used)
    chk.extra["compiler_invocations"] = runner.nruns
    chk.extra["observe_events"] = nev
    chk.extra["inputs_of_monitor"] = ninputs
    chk.extra["source_files"] = len({i.name for g in groups for i in g.inputs})
    chk.extra["batch_compositions_realised"] = sum(1 for g in groups if g.batch_only)
    chk.extra["batch_kind_pairs_realised"] = len({(a["kind"], b["kind"]) for g in groups if g.comp
                                                  for a, b in zip(g.comp["files"], g.comp["files"][1:])})
    chk.extra["projections"] = detobs.detproj.PROJECTIONS
    chk.extra["distinct_outputs_projected"] = runner.nproj
    chk.extra["gcc_syntax_checks"] = runner.ngcc
    chk.extra["groups"] = {g.gid: {"class": g.cls, "opts": g.opts, "files": [i.name for i in g.inputs]} for g in groups[:40]}
    chk.extra["axis_values_realised"] = {a: sorted({json.dumps(c["cfg"][a], sort_keys=True) for c in used}) for a in ("gc", "aslr", "cwd", "env", "inv", "rep")}
    chk.extra["rejected_observations"] = len(disagreements)
    chk.extra["rejected_by_class"] = sorted(classes.values(), key=lambda e: -e["count"])
    chk.extra["formats_recording_the_directory"] = sorted(runner.paths_recorded)
    chk.extra["same_directory_for_equal_cwd"] = bool(runner.ns)
    if not runner.ns:
        chk.assumptions.append("private mount namespaces are not available here: every run had an absolute directory of its own, "
                               "so an output that records the directory is reported on whatever axis the two runs differ in")
    chk.extra["invocations_without_exit"] = runner.hang_list[:10]
    chk.extra["invocations_skipped_after_hangs"] = runner.skipped_after_hangs
    chk.extra["batch_files_not_started_after_a_failed_file"] = runner.unreached
    chk.extra["wall_compile_s"] = round(t_run, 1)
    chk.extra["wall_tlc_trace_s"] = round(t_tlc, 1)
    chk.extra["slowest_runs_s"] = [list(k) + [round(t, 1)] for k, t in sorted(runner.durations.items(), key=lambda kv: -kv[1])[:6]]
    diag = sum(1 for k, v in by_input.items() if k.endswith("|msg") and len({tuple(e["digest"]) for _, e in v}) >= 1
               and any(i.name == k.split("|")[0] and ("gb_" in i.name or "err" in gid_of[i.name].gid) for g in groups for i in g.inputs))
    chk.extra["inputs_with_planted_errors"] = diag
    chk.sample({"configuration": used[-1]})
    k0 = sorted(by_input)[0]
    chk.sample({"events": [e for _, e in by_input[k0][:3]]})
    chk.rule = ("a case is (source file, output kind in ao/fm/c/lsp/java/msg [: projection] [, the batch it was compiled in]) or (group, exit status); "
                "it is non-trivial if the output exists under some configuration; each case is observed under the baseline configuration, "
                "every single-axis variation of it and seeded combinations, all taken from the TLC export of DetCfg.tla")
    chk.exhaustive = False
    chk.assumptions.append("environment variables the compiler documents as inputs (ALDORROOT, ALDORARGS, INCPATH, LIBPATH, GC_*, ALDOR_TERM...) "
                           "are options, not environment: the polluted environment never sets them")
    chk.assumptions.append("each run starts in a fresh directory that holds only the sources (stale outputs change the diagnostics by design)")
    chk.assumptions.append("a fatal error ends a multi-file invocation: files whose own compilation ends the invocation are placed last in "
                           "their group, files that a failed invocation never started are not observed for that run, and the exit status of "
                           "one invocation is compared with that of several only as zero / non-zero")
    chk.assumptions.append("an invocation that does not exit within 100 times its estimated CPU time plus two minutes, and again within "
                           "three times that, is observed as a hang (a different observation than any terminated run)")
    chk.assumptions.append("projections are observed in the baseline and in batched runs only (on the other axes the full text is compared "
                           "and no finding is open); a full-text difference of a code output between a separate and a batched compilation "
                           "is matched against the recorded renumbering finding, a difference of a projection never is")
    chk.assumptions.append("the working-directory axis is two directories of different depth and name length, sources addressed by relative name")


def describe_difference(*a):
    return detobs.Runner.describe_difference(*a)


detobs.describe_difference = describe_difference


def replay(d):
    """bin/verif replay C08 <file>: run the group of the recorded disagreement again under the two configurations."""
    det = d["detail"]
    if not isinstance(det, dict) or "sources" not in det:
        return 0
    b = vlib.vbuild()
    wd = vlib.scratch("c08replay")
    r = vlib.tlc("DetCfg", "DetCfg", workers=4, timeout=300)
    by_id = {c["id"]: c for c in (json.loads(l[7:]) for l in r.printed if isinstance(l, str) and l.startswith("CONFIG "))}
    g = detobs.Group("replay", [detobs.Input(n, det["sources"][n], "tiny", "replay") for n in det.get("files", list(det["sources"]))],
                     det.get("options", []))
    runner = detobs.Runner(b, wd)
    by_input = detobs.run_all(runner, [(g, by_id[det["first"]]), (g, by_id[det["other"]])], 4)
    key = "|".join(det["input"].split("|")[:2])
    evs = dict(by_input.get(key, []))
    d1, d2 = evs.get(det["first"], {}).get("digest"), evs.get(det["other"], {}).get("digest")
    print("first  %s -> %s" % (det["first"], d1))
    print("other  %s -> %s" % (det["other"], d2))
    print("difference repeats" if d1 != d2 else "no difference this time (address-dependent differences need not repeat)")
    if d1 != d2 and d1 and d2:
        print(runner.describe_difference(key, d1, d2))
    return 1 if d1 != d2 else 0


def selftest():
    """Binding of the trace to the monitor: a recorded trace is accepted; corrupting one digest word, one configuration
    field or the shape of a digest makes TLC reject it.  Run:  python3 -c "import sys; sys.path[:0]=['/verif','/verif/lib']; import checks.c08 as c; c.selftest()" """
    import copy
    b = vlib.vbuild()
    wd = vlib.scratch("c08self")
    r = vlib.tlc("DetCfg", "DetCfg", workers=4, timeout=300)
    confs = [json.loads(l[7:]) for l in r.printed if isinstance(l, str) and l.startswith("CONFIG ")]
    groups = [g for g in detobs.make_inputs(1, "quick") if g.cls == "tiny"][:1]
    sel = [c for c in confs if c["dist"] <= 1 and c["cfg"]["gc"]["k"] == 0 and c["cfg"]["inv"] == "sep"]
    runner = detobs.Runner(b, wd)
    by_input = detobs.run_all(runner, [(groups[0], c) for c in sel], 8)
    events = [e for k in sorted(by_input) for _, e in by_input[k]]

    def verdict(evs, cfg="TraceDet"):
        p = os.path.join(wd, "self.ndjson")
        vlib.write_ndjson(p, evs)
        res, dets = detobs.validate([p], cfg, nproc=1)
        return res[0], dets[0]
    out = []
    res, det = verdict(events)
    out.append(("recorded trace", "accepted" if det and not det["disagreements"] and not res.violated else "REJECTED"))
    ev2 = copy.deepcopy(events)
    n = next(i for i, e in enumerate(ev2) if e["digest"][0] >= 0 and i > 0 and ev2[i - 1]["input"] == e["input"])
    ev2[n]["digest"][2] ^= 1
    res, det = verdict(ev2)
    out.append(("one digest word changed", "rejected: %s" % det["disagreements"][0] if det and det["disagreements"] else "ACCEPTED"))
    res, det = verdict(ev2, "TraceDetStrict")
    out.append(("same, strict cfg", "rejected: invariant %s" % res.violated if res.violated else "ACCEPTED"))
    ev3 = copy.deepcopy(events)
    ev3[7]["cfg"] = dict(ev3[7]["cfg"], gc={"flag": "-Wno-gc", "k": 7, "j": 0})
    res, det = verdict(ev3)
    out.append(("configuration outside DetCfg (forced schedule with -Wno-gc)", "rejected: invariant %s" % res.violated if res.violated else "ACCEPTED"))
    ev4 = copy.deepcopy(events)
    ev4[3]["digest"] = [1, 2, 3]
    res, det = verdict(ev4)
    out.append(("digest with 3 words", "rejected: invariant %s" % res.violated if res.violated else "ACCEPTED"))
    ev5 = copy.deepcopy(events)
    ev5[9]["cfg"] = dict(ev5[9]["cfg"], aslr="maybe")
    res, det = verdict(ev5)
    out.append(("aslr value outside the axis", "rejected: invariant %s" % res.violated if res.violated else "ACCEPTED"))
    ev6 = copy.deepcopy(events)
    ev6[5]["proj"] = "no-such-projection"
    res, det = verdict(ev6)
    out.append(("view that is not a projection of DetCfg", "rejected: invariant %s" % res.violated if res.violated else "ACCEPTED"))
    for o in out:
        print("%-60s %s" % o)
    vlib.cleanup_scratch()
    return out


SELFTEST_NOTES = """
Mutations of the anchored sources, each in a scratch worktree of /repo, run as `VERIF_SRC=<wt>/aldor/aldor/src bin/verif check C08
--tier quick` (all compile; worktrees removed afterwards).  "axes" = the axes DetCfg!DiffAxes names for the rejected Observe events
that are not covered by a known finding.

 M1 genc.c gc0IdHashInBuf: hashNum = (strHash(s) + address of s) % VAR_HASH          CAUGHT  .c on gc / aslr (file and in-batch scope)
 M2 emit.c emitTheLisp: header names osCurDirName()/file                              no effect: osCurDirName() is "." on Unix (output unchanged)
 M2b emit.c emitTheLisp: header names getcwd()/file (absolute path recorded)          CAUGHT  .lsp on cwd only (18 files; plus the in-batch runs whose
                                                                                              cwd differs) -- equal cwd values share one absolute path
                                                                                              through a private mount namespace per invocation
 M3 tform.c tfHash: symHash(symeId) (address of the interned symbol) for strHash      CAUGHT  .ao .fm .c .lsp on gc / aslr
 M4 emit.c emitTheLisp: extra header line with getpid()                               CAUGHT  .lsp on rep (same image started twice) and all others
 M5 emit.c C header text depends on getenv("USER")                                    CAUGHT  .c on env
 M6 table.c tblNew0: bucket vector allocated with a pointer-free object code           CAUGHT  msg/.ao/.fm/.c/.lsp/exit on gc: under the forced
    (OB_BInt): the collector does not trace it                                                 schedules the compiler loops or fails; invocations that
                                                                                              do not exit within the limit are observed as hangs
 M7 comsg.c comsgInit: message counter not reset per file                             CAUGHT  msg on inv (second file of a batch numbers from #n+1)
 java fix (hooks/fix-C08-java-token-hash.diff) applied in a worktree: no .java disagreement is left on aslr/gc/cwd/env/rep.

Trace corruption (selftest() below): recorded trace accepted; one digest word flipped -> rejected, report names both configurations and
the axis (strict cfg: invariant Functional); gc = {-Wno-gc, k=7} -> invariant ValidCfgs; digest with 3 words -> ValidCfgs; aslr = "maybe"
-> ValidCfgs; a trace not ordered by distance from the baseline -> invariant NearestFirst.
Monitor model: ObsMC.cfg 22,621 states (6 s), ObsMC5.cfg 2,000,719 states (41 s); probe ObsMCProbe.cfg violates NeverRejects as expected.
Unchanged tree: held (known findings only) with VERIF_SEED 20261004, 777, 1, 42, 31337, 90210.  Findings met on the unchanged tree:
.java depends on symbol addresses (every seed); code outputs of the 2nd+ file of a batch (every seed); note numbers not reset per file
(seeds 31337, 90210: ill-typed generated programs with `vbad4'); thorough tier: bug1247.as crashes or succeeds depending on the forced
schedule (out-of-bounds read with an unresolved forward constant number), abcheck1.as diagnostics depend on ASLR.  All reproduced by hand
(two commands + diff) and recorded in known_findings.jsonl; candidate patches hooks/fix-C08-*.diff for three of them.

Strengthening (batch axis made precise; see DetCfg!Projections, FileKinds, gen/detproj.py):
 seeded C08-2 (genc.c: list of included C headers only popped) was MISSED before (every .c difference on the inv axis matched the
 renumbering finding); now CAUGHT: c:includes / c:canon of f_fhdrA1, f_fhdrB2, f_tiny1 on inv.  C08-1, C08-3 still caught.
 Own mutants (family experiment, all caught): genc.c ccHdrFileList never emptied -> c:includes, c:canon; include.c includeFile keeps
 the assertions of a file (globalAssertList = localAssertList) -> the sensors fire: 20 projections of c/fm/lsp/java/ao (literals, tags,
 canon, globals ...) of every file after a `prag' file.
 New findings on the unchanged tree that the broad key had hidden (all reproduced by hand, recorded with specific keys):
  - genc.c gcvNBInts / gcvNRRFmt never reset: GB<n>/GA<n> names of the 2nd+ file continue the numbering (-Q3; c:decls, c:canon;
    sig bigint-number; hooks/fix-C08-bigint-counter-reset.diff removes it);
  - stab.c stabSerialNoCounter not reset per file: type codes in the syme section of the .ao differ, also for library-free files and
    the same file twice (sig syme-codes; hooks/candidate-C08-stab-serial-per-file.diff removes the triv1 case, one byte still differs
    for a file that follows a file with errors -- not traced);
  - a library-free file compiled after a library-using one records a reference to lang.ao and extra meanings in its .ao.
  - thorough tier / corpus scan (every corpus file after one small axllib file, -Q0/default/-Q3): 11 corpus files get DIFFERENT CODE
    in a batch (10 of them `extend' a library domain: the domain is then taken from another library unit, e.g. basic_Integer for
    integer_Integer); 5 of the batch-compiled .ao (t986, bug1272, opt2, t1059, bug885) die with a segmentation violation under
    -Ginterp where the separately compiled ones run correctly -- the batch defect is not "equivalent code".  Keyed by origin.
  - the diagnostics of library-free files that lack Boolean (linear4, scan4) differ after an axllib file (Boolean still known).
 Pitfall met: (EElt format ref level slot name) -- the slot is the 4th child, removing the 2nd one drops the reference expression.
 Projections tried and found stable on HEAD over all 72 pairs + 100 3-file + 100 4-file batches of the family and 30-60 random
 2-4-file batches of corpus/generated programs, seeds 1, 2, 3: all of PROJECTIONS.  Dropped because not invariant under the recorded
 renumbering: ao size, ao printable strings (the number of meanings and the list of library files change), lsp tags with slot numbers.
 Trace corruption: an event whose proj is not in DetCfg!Projections(kind) -> invariant ValidCfgs.
False alarms met and removed while building: (1) a fatal error ("too many errors", "Program fault" of the Java generator) ends a
multi-file invocation, the remaining files are never started -> such files are not observed for that run; (2) the exit status of a batch
that ends by a fatal error is 1, not the sum of the error counts -> batch and separate runs are compared on zero / non-zero only;
(3) stale outputs in the directory produce "will now be out of date" warnings -> every run starts in a fresh directory.
"""
