"""C03 -- Interpreter and native executable agree."""
import os
import sys

import vlib
import progcheck

sys.path.insert(0, os.path.join(vlib.VERIF, "gen"))
import progen  # noqa: E402
import fixedprogs  # noqa: E402
import corpus  # noqa: E402
import random  # noqa: E402

META = {
    "title": "Interpreter and native executable agree",
    "level": "model_checking",
    "technique": "TLA+ reference semantics (AldorSem.tla) evaluated by TLC; each program replayed by -Ginterp from source, -Ginterp from the saved .ao and as the gcc-linked executable at several -Q levels; all must equal the specified behaviour (hence each other)",
    "design_ref": "DESIGN.md 5 C03",
    "level_text": "Agreement of the routes is decided against a third party: the behaviour TLC derives from AldorSem.tla for the same abstract "
                  "program, including programs that end by an explicit halt (error). Every (program, level, route) run must print the "
                  "specified output and finish in the specified exit class, which implies pairwise agreement of the three routes. "
                  "A deviation from the specification that all routes of one level share (the compiler fails the same way, or both print "
                  "the same wrong text) is not a disagreement of the routes: it is tallied (extra.off_specification_but_routes_agree) "
                  "and left to C01/C02; the specification then tells WHICH route is wrong when they differ.",
    "level_note": "Trusted: AldorSem.tla, renderer, gcc, shipped libraries. The interpreter's call-stack listing after a halt is treated as "
                  "a diagnostic (not program output); unit, line and quoted text of a failed assertion are not compared.",
}


def level_of(label):
    return label.rsplit("-", 1)[-1]


def merge_agree(acc, per_route):
    a = per_route.get("<agree>", {})
    acc["groups"] = acc.get("groups", 0) + a.get("groups_off_spec_but_agreeing", 0)
    acc.setdefault("examples", [])
    acc["examples"] = (acc["examples"] + a.get("examples", []))[:12]


def run(chk, tier):
    b = vlib.vbuild()
    wd = vlib.scratch("c03")
    levels = [0, 2, 9] if tier == "quick" else [0, 1, 2, 3, 5, 9]
    n = 30 if tier == "quick" else 700
    routes = []
    for q in levels:
        routes += [("interp-Q%d" % q, "interp", q, ()), ("ao-interp-Q%d" % q, "ao", q, ()), ("c-Q%d" % q, "c", q, ())]
    fixed = fixedprogs.fixed_regressions() + fixedprogs.findings_opt()
    fam0 = progcheck.Family(chk, fixed, "fixed", cfg="AldorSemAny", workers=4, timeout=300)
    agree = {}
    merge_agree(agree, progcheck.replay(chk, b, fam0, routes, wd, agree_group=level_of))
    per = {}
    done, k = 0, 0
    while done < n:
        m = min(300, n - done)
        feats = None
        progs = progen.generate((chk.seed + 7) % 1000003 + k, m, features=feats)
        # make halting programs frequent: force the feature on in every second program
        progs = []
        for i in range(m):
            # (emphasis) halts in every second program; deep closure nesting in every fifth
            g = progen.ProgGen(((chk.seed + 7) % 1000003 + k) * 100003 + i,
                               emph=(("halt",) if i % 2 == 0 else ()) + (("deep",) if i % 5 == 4 else ()))
            if i % 2 == 0:
                g.feat |= {"halt", "fun"}
            if i % 3 == 1:
                g.feat |= {"tup", "fun", "coll", "list", "gen", "filt", "for", "adt", "kwd", "strop", "str", "where", "pfor", "bits"}
            progs.append(g.program("h%d_%d" % (k, i)))
        if k == 0:      # collect forms over generators
            progs += progen.generator_collect_family((chk.seed + 19) % 1000003, 8 if tier == "quick" else 120, with_try=False)
        fam = progcheck.Family(chk, progs, "gen%d" % k, workers=vlib.NCPU, timeout=1500)
        for s, c in fam.status_count.items():
            per[s] = per.get(s, 0) + c
        merge_agree(agree, progcheck.replay(chk, b, fam, routes, wd, agree_group=level_of))
        for p in fam.replayable[:3]:
            if len(chk.samples) < 4 and fam.exp[p["id"]]["status"] != "done":
                chk.sample({"program": progcheck.render.render(p)[:1500], "expected_out": fam.exp[p["id"]]["out"][:300],
                            "status": fam.exp[p["id"]]["status"]})
        if not chk.samples and fam.replayable:
            p = fam.replayable[0]
            chk.sample({"program": progcheck.render.render(p)[:1500], "expected_out": fam.exp[p["id"]]["out"][:300],
                        "status": fam.exp[p["id"]]["status"]})
        done += m
        k += 1
    # separate compilation: the functions that throw are compiled as a library unit (at -Q0), the handlers stay in the client;
    # exceptions then cross a unit boundary on both routes
    nx = 12 if tier == "quick" else 300
    xprogs = []
    for i in range(nx):
        g = progen.ProgGen(((chk.seed + 11) % 1000003) * 100003 + i, emph=("try",))
        g.feat |= {"try", "fun"}
        g.feat -= {"gen"}
        g.exns = g.exns or ["Ex0", "Ex1", "Ex2"]
        xprogs.append(g.program("sx%d" % i))
    famx = progcheck.Family(chk, xprogs, "split-exceptions", workers=vlib.NCPU, timeout=1500)
    sroutes = []
    for q in ([0, 2] if tier == "quick" else [0, 1, 2]):
        sroutes += [("split0-interp-Q%d" % q, "split0-interp", q, ()), ("split0-c-Q%d" % q, "split0-c", q, ())]
    merge_agree(agree, progcheck.replay(chk, b, famx, sroutes, wd, agree_group=level_of))
    chk.extra["off_specification_but_routes_agree"] = agree
    for s_, c in famx.status_count.items():
        per["split:" + s_] = c
    # exceptions that carry a value, caught (the handler reads the value) and uncaught ("Unhandled Exception: ExP0(??)")
    npx = 10 if tier == "quick" else 300
    pprogs = []
    for i in range(npx):
        g = progen.ProgGen(((chk.seed + 17) % 1000003) * 100003 + i, emph=("try", "call"))
        g.feat |= {"try", "fun"}
        g.feat -= {"gen"}
        g.enable_payload()
        pprogs.append(g.program("pv%d" % i))
    famp = progcheck.Family(chk, pprogs, "payload-exceptions", workers=vlib.NCPU, timeout=1500)
    proutes = [r_ for r_ in routes if r_[2] in ((0, 2) if tier == "quick" else levels)]
    merge_agree(agree, progcheck.replay(chk, b, famp, proutes, wd, agree_group=level_of))
    for s_, c in famp.status_count.items():
        per["payload:" + s_] = c
    # operator nests: every (parent, child, side) pair of the integer / comparison / Boolean operators, with variable and with
    # literal operands, so that at -Q2+ (library operations inlined) the nest reaches the C printer as one expression
    import opnest
    nprogs = opnest.programs(chk.seed % 1000003, 99, per_prog=20)
    famn = progcheck.Family(chk, nprogs, "operator-nests", workers=vlib.NCPU, timeout=1500)
    nroutes = [r_ for r_ in routes if r_[2] in ((2,) if tier == "quick" else levels) and (tier != "quick" or r_[1] != "ao")]
    merge_agree(agree, progcheck.replay(chk, b, famn, nroutes, wd, agree_group=level_of))
    per["operator-nests"] = sum(len(p_["funs"]) for p_ in famn.replayable)
    if len(famn.replayable) < len(nprogs):
        raise vlib.MachineryError("operator-nest programs not evaluated to the end: %s" % famn.status_count)
    # failed assertions: `assert` is in the family as an opt-in feature.  -Qdel-assert (documented, on from -Q2) deletes
    # assertions, so the specification is evaluated twice (AldorSem's DelAssert) and each level is compared with its own
    na = 12 if tier == "quick" else 300
    aprogs = []
    for i in range(na):
        g = progen.ProgGen(((chk.seed + 13) % 1000003) * 100003 + i)
        g.feat |= {"assert", "fun"}
        if i % 2:       # ... and programs that recover from several halts (error, failed assertion) in a row
            g.feat |= {"try", "halt", "catchall"}
            g.exns = g.exns or ["Ex0", "Ex1", "Ex2"]
        aprogs.append(g.program("as%d" % i))
    aprogs += [q for q in fixedprogs.fixed_regressions(with_assert=True) if q["id"].startswith("R5")]
    fam_lo = progcheck.Family(chk, aprogs, "assert-kept", workers=vlib.NCPU, timeout=1500)
    fam_hi = progcheck.Family(chk, aprogs, "assert-deleted", workers=vlib.NCPU, timeout=1500, delassert=True)
    lo_levels = [q for q in levels if q < 2]
    hi_levels = [2] if tier == "quick" else [q for q in levels if q >= 2]
    rl = lambda qs: [(lab % q, rt, q, ()) for q in qs for (lab, rt) in (("interp-Q%d", "interp"), ("ao-interp-Q%d", "ao"), ("c-Q%d", "c"))]
    merge_agree(agree, progcheck.replay(chk, b, fam_lo, rl(lo_levels), wd, agree_group=level_of))
    merge_agree(agree, progcheck.replay(chk, b, fam_hi, rl(hi_levels), wd, agree_group=level_of))
    per["assert-kept:halt"] = fam_lo.status_count.get("halt", 0)
    per["assert-kept:done"] = fam_lo.status_count.get("done", 0)
    per["assert-deleted:done"] = fam_hi.status_count.get("done", 0)
    chk.extra["off_specification_but_routes_agree"] = agree
    # the pinned corpus through the Obs monitor: interpreter at -Q0 is the reference observation
    allnames = corpus.names()
    rnd = random.Random(chk.seed)
    # always: the programs about floats, exceptions, generators and abnormal ends; plus a seeded sample of the rest
    always = [n for n in allnames if n.startswith(("float", "exn", "try", "mandel", "bigmand", "exit", "halt", "gener", "gfGener",
                                                   "df", "fix", "ratio", "limits", "numeral", "lit"))]
    sample = allnames if tier == "thorough" else sorted(set(always + rnd.sample(allnames, 12)))
    clevels = [0, 2] if tier == "quick" else levels
    cfgs = [("interp-Q0", "interp", ("-Q0",))]
    for q in clevels:
        if q != 0:
            cfgs.append(("interp-Q%d" % q, "interp", ("-Q%d" % q,)))
        cfgs.append(("c-Q%d" % q, "c", ("-Q%d" % q,)))
    # observations are grouped by (program, level): the two routes must agree at each level (differences between levels
    # are C02's subject)
    chk.extra["corpus"] = corpus.observe(chk, b, sample, cfgs, os.path.join(wd, "corpus"), "C03", "interp-Q0",
                                         group=lambda n, label: n + "@" + label.split("-")[-1])
    chk.extra["programs_by_status"] = per
    chk.extra["routes"] = [r[0] for r in routes]
    chk.rule = ("generated programs (half of them with the halt feature forced on) x optimisation levels x {interpret source, interpret saved "
                ".ao, gcc-linked executable}; a case is (program, level, route); non-trivial = non-empty specified output")
    chk.assumptions += ["the interpreter's stack listing after a halt is a diagnostic and is removed before comparison",
                        "only order-independent programs are replayed (operand order undefined)"]
