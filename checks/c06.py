"""C06 -- Ill-typed programs are rejected, well-typed ones accepted."""
import concurrent.futures
import json
import os
import re
import shutil
import sys

import vlib
import progcheck

sys.path.insert(0, os.path.join(vlib.VERIF, "gen"))
import progen  # noqa: E402
import mutants  # noqa: E402
import typed  # noqa: E402
import render  # noqa: E402

META = {
    "title": "Ill-typed programs are rejected, well-typed ones accepted",
    "level": "model_checking",
    "technique": "typing rules as a TLA+ module (AldorTypes.tla); TLC computes WellTyped for every generated program and every planted-fault mutant; the compiler must accept exactly the well-typed ones, and reject the others with a positioned error, non-zero exit and no output files",
    "design_ref": "DESIGN.md 3.1 (static semantics), 5 C06",
    "level_text": "The verdict for each program comes from TLC evaluating the explicit typing rules of AldorTypes.tla, not from the mutation "
                  "catalogue: every eligible site of every base program receives every catalogue fault (wrong argument type, wrong count, "
                  "undefined name, assignment to a constant, wrong return type) plus type-preserving control mutations that must stay accepted. "
                  "Function values whose parameters are domains: MapSat.tla derives the rule from substitution over a chain of categories, "
                  "TLC checks it to be contravariance, and every signature pair within the bounds is compiled.",
    "level_note": "Trusted: the typing rules of AldorTypes.tla (they cover the generated family only: scalars, lists, arrays, records, unions, "
                  "closures, generators, overloading with resolution, macros, categories and (parametrised) domains, domains with a private "
                  "representation, several values at once, collect forms, loop filters, default and keyword arguments, exceptions with "
                  "values, where expressions); the renderer. A position reported in an included file (expansion of a library macro) counts "
                  "as a position.",
}


def tlc_welltyped(chk, progs, name, chunk=1500):
    d = vlib.scratch("types")
    out = {}
    # one TLC run per chunk of programs: the time of a run grows with the size of the deserialised input
    for k in range(0, len(progs), chunk):
        part = progs[k:k + chunk]
        path = os.path.join(d, "t%d.ndjson" % k)
        vlib.write_ndjson(path, [typed.typed(p) for p in part])
        r = vlib.tlc("AldorTypes", "AldorTypes", workers=vlib.NCPU, env={"PROGS": path}, timeout=2400)
        chk.add_tlc("AldorTypes[%s%s]" % (name, "" if len(progs) <= chunk else "/%d" % (k // chunk)), r)
        for l in r.printed:
            if isinstance(l, str) and l.startswith("TYPED "):
                x = json.loads(l[6:])
                out[x["id"]] = x["ok"]
    missing = [p["id"] for p in progs if p["id"] not in out]
    if missing:
        raise vlib.MachineryError("AldorTypes gave no verdict for %d programs (e.g. %s)" % (len(missing), missing[0]))
    return out


def compile_one(b, p, wd):
    d = os.path.join(wd, p["id"].replace("~", "_"))
    os.makedirs(d, exist_ok=True)
    src = render.render(p)
    open(os.path.join(d, "p.as"), "w").write(src)
    rc, out, err, to = vlib.aldor(b, ["-Fao", "-Fc", "-Ffm", "p.as"], d, timeout=120)
    text = (out + err).decode(errors="replace")
    present = [f for f in ("p.ao", "p.c", "p.fm") if os.path.exists(os.path.join(d, f))]
    return {"rc": rc, "timeout": to, "text": text, "present": present, "lines": src.count("\n") + 1, "src": src}


def mapsat_phase(chk, b, wd, tier):
    """Function values with domain parameters (spec/MapSat.tla): TLC derives, for every pair of signatures within the bounds,
    whether passing fn where use expects its parameter type is well typed (every application use may make is one fn can
    serve) and checks that this is the contravariant rule; every case is compiled."""
    import json
    import random
    sys.path.insert(0, os.path.join(vlib.VERIF, "gen"))
    import mapsat
    cfg, ncat = ("MapSat", 3) if tier == "quick" else ("MapSat3", 4)
    r = vlib.tlc("MapSat", cfg, workers=4, timeout=900)
    chk.add_tlc(cfg, r)
    if r.violated:
        chk.violation("MapSat.tla violates %s" % r.violated, r.trace_text, key={"model": "MapSat", "inv": r.violated})
        return
    cases = [json.loads(l[5:]) for l in r.printed if isinstance(l, str) and l.startswith("CASE ")]
    if len(cases) < 600:
        raise vlib.MachineryError("MapSat exported only %d cases" % len(cases))
    cases.sort(key=lambda c: json.dumps(c, sort_keys=True))
    if len(cases) > 4000:
        good = [c for c in cases if c["ok"]]
        rnd = random.Random(chk.seed + 61)
        cases = good[:1500] + rnd.sample([c for c in cases if not c["ok"]], 2500)

    def one(ic):
        i, c = ic
        d = os.path.join(wd, "ms%05d" % i)
        os.makedirs(d, exist_ok=True)
        src = mapsat.render(c, ncat)
        open(os.path.join(d, "p.as"), "w").write(src)
        rc, out, err, to = vlib.aldor(b, ["-Fao", "-Fc", "p.as"], d, timeout=120)
        text = (out + err).decode(errors="replace")
        present = [f for f in ("p.ao", "p.c") if os.path.exists(os.path.join(d, f))]
        shutil.rmtree(d, ignore_errors=True)
        return {"rc": rc, "timeout": to, "text": text, "present": present, "src": src}
    with concurrent.futures.ThreadPoolExecutor(max_workers=vlib.NCPU) as ex:
        res = list(ex.map(one, enumerate(cases)))
    n_ok = 0
    for c, r_ in zip(cases, res):
        shape = "arity" if len(c["formal"]["ps"]) != len(c["actual"]["ps"]) else "result" if c["formal"]["ret"] != c["actual"]["ret"] \
            else "same" if c["formal"]["ps"] == c["actual"]["ps"] else "wider" if c["ok"] else "narrower"
        chk.case(("mapsat", json.dumps(c, sort_keys=True)), nontrivial=True)
        n_ok += 1 if c["ok"] else 0
        has_err = bool(re.search(r"\((?:Fatal )?Error\)", r_["text"]))
        faulted = "Program fault" in r_["text"] or "Bug:" in r_["text"] or (r_["rc"] is not None and r_["rc"] < 0) or r_["timeout"]
        prob = None
        if faulted:
            prob = "fault"
        elif c["ok"] and (r_["rc"] != 0 or has_err):
            prob = "rejects-well-typed"
        elif not c["ok"] and (r_["rc"] == 0 or not has_err):
            prob = "accepts-ill-typed"
        elif not c["ok"] and not re.search(r"\[L\d+ C\d+\]", r_["text"]):
            prob = "no-source-position"
        elif not c["ok"] and r_["present"]:
            prob = "output-after-error"
        if prob:
            chk.violation("%s: function value (%s) -> %s passed where (%s) -> %s is expected (parameters are domains of the categories "
                          "K<i> of a chain; %s)" % (prob, ",".join("K%d" % k for k in c["actual"]["ps"]), c["actual"]["ret"],
                                                    ",".join("K%d" % k for k in c["formal"]["ps"]), c["formal"]["ret"], shape),
                          {"case": c, "rc": r_["rc"], "compiler_output": r_["text"][:2000], "files_present": r_["present"],
                           "source": r_["src"]}, key={"kind": prob, "catalogue": "mapsat", "shape": shape})
    chk.traces += len(cases)
    chk.extra["mapsat"] = {"cases": len(cases), "well_typed": n_ok, "categories": ncat}


def run(chk, tier):
    b = vlib.vbuild()
    wd = vlib.scratch("c06")
    mapsat_phase(chk, b, wd, tier)
    nbase = 40 if tier == "quick" else 300
    cap = 30 if tier == "quick" else 100        # (every catalogue entry stays represented per base program; bounds memory)
    bases = progen.generate((chk.seed + 41) % 1000003, nbase)
    wt = tlc_welltyped(chk, bases, "base")
    bad_gen = [i for i, ok in wt.items() if not ok]
    if bad_gen:
        raise vlib.MachineryError("generator produced programs that AldorTypes rejects: %s" % bad_gen[:5])
    muts = []
    for i, p in enumerate(bases):
        muts += mutants.mutants(p, chk.seed + i, cap=cap)
    mt = tlc_welltyped(chk, muts, "mutants")
    allp = bases + muts
    verdict = dict(wt)
    verdict.update(mt)
    with concurrent.futures.ThreadPoolExecutor(max_workers=vlib.NCPU) as ex:
        res = list(ex.map(lambda p: compile_one(b, p, wd), allp))
    stats = {}
    for p, r in zip(allp, res):
        ok = verdict[p["id"]]
        cat = p.get("mutation", {}).get("catalogue", "base")
        st = stats.setdefault(cat, {"n": 0, "ill_typed": 0})
        st["n"] += 1
        st["ill_typed"] += 0 if ok else 1
        chk.case((p["id"],), nontrivial=True)
        has_err = bool(re.search(r"\((?:Fatal )?Error\)", r["text"]))
        faulted = "Program fault" in r["text"] or "Bug:" in r["text"] or (r["rc"] is not None and r["rc"] < 0) or r["timeout"]
        prob = None
        if faulted:
            prob = ("fault", progcheck.first_error(r["text"]) or "signal/timeout")
        elif ok:
            if r["rc"] != 0 or has_err:
                prob = ("rejects-well-typed", progcheck.first_error(r["text"]))
        else:
            if r["rc"] == 0 or not has_err:
                prob = ("accepts-ill-typed", cat)
            else:
                # positions are given under a heading that names the file; a message about the expansion of a library
                # macro (e.g. `rep`) is positioned in the file that defines the macro: only positions in the program's own
                # file are compared with its length
                pos, own, cur = [], [], "p.as"
                for line in r["text"].split("\n"):
                    h = re.match(r'^"([^"]*)", line \d+:', line)
                    if h:
                        cur = os.path.basename(h.group(1))
                    for n in re.findall(r"\[L(\d+) C\d+\]", line):
                        pos.append(int(n))
                        if cur == "p.as":
                            own.append(int(n))
                if not pos or not all(1 <= n <= r["lines"] for n in own):
                    prob = ("no-source-position", cat)
                elif r["present"]:
                    prob = ("output-after-error", ",".join(r["present"]))
        if prob:
            chk.violation("%s: %s (%s; %s)" % (prob[0], p["id"], cat, p.get("mutation", {}).get("site", "")),
                          {"program_id": p["id"], "mutation": p.get("mutation"), "welltyped_by_TLC": ok, "rc": r["rc"],
                           "compiler_output": r["text"][:3000], "files_present": r["present"], "source": r["src"]},
                          key={"kind": prob[0], "sig": prob[1], "catalogue": cat, "shapes": progcheck.shape_flags(p),
                               "in_exit_value": bool(p.get("mutation", {}).get("in_exit_value"))})
    chk.traces += len(allp)
    chk.extra["by_catalogue"] = stats
    m = next((x for x in muts if not verdict[x["id"]]), None)
    if m:
        chk.sample({"mutation": m["mutation"], "welltyped_by_TLC": False, "source_tail": render.render(m)[-600:]})
    c = next((x for x in muts if verdict[x["id"]]), None)
    if c:
        chk.sample({"mutation": c["mutation"], "welltyped_by_TLC": True})
    chk.rule = ("base programs from the typed generator (all well typed by TLC) and, for each, catalogue faults planted at eligible sites "
                "(capped per program in the quick tier, all sites in the thorough tier); a case is one program; each is distinct by construction")
