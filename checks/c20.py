"""C20 -- Core containers and the boolean normal form behave as their models.

Decided by TLC on spec/Containers.tla, spec/TraceContainers.tla, spec/Dnf.tla, spec/TraceDnf.tla.
  (A) GenSpec of Containers.tla / Dnf.tla: every history of a bounded length over a small alphabet
      (per container) and every formula over 4 atoms of operator depth <= 2; TLC checks the model-level
      invariants in every state and prints each maximal history / formula.
  (B) harness/containers_drv.c replays each of them into table.c, btree.c, priq.c, bitv.c, dnf.c built
      from /repo's working tree and records every call with everything it returned.
  (C) the same driver records long random histories (forced hash collisions, drifting sizes, duplicate
      keys, B-tree orders 2/3/8) and random formulas (4 and 10 atoms); TraceContainers / TraceDnf validate
      every recorded event against the specification and print a BAD record for each one that fails.
Python only moves files around and forwards TLC's BAD records.
"""
import json
import math
import os
import subprocess
import sys
import threading
import time
from concurrent.futures import ThreadPoolExecutor

import vlib

sys.path.insert(0, os.path.join(vlib.VERIF, "gen"))
import c20_gen  # noqa: E402

META = {
    "title": "Core containers and the boolean normal form behave as their models",
    "level": "model_checking",
    "technique": "TLC: exhaustive short histories / all formulas <= 4 atoms, depth <= 2 exported and replayed into the "
                 "real C modules; every recorded call (short and 10^4..10^5-step random histories, random 10-atom "
                 "formulas) validated against the TLA+ specification by trace validation",
    "design_ref": "DESIGN.md §3.5, §5 C20",
    "level_text": "explicit-state model checking of Containers.tla / Dnf.tla plus trace validation of the implementation",
    "level_note": "bounded: history length and alphabet per container as listed in coverage.rule; formulas exhaustive "
                  "to operator depth 2 over 4 atoms, sampled beyond; a wrong `no' of dnfImplies/dnfEqual counts as the recorded "
                  "incompleteness only on operands that DnfImpl.tla (dnf.c as pinned) builds and where the modelled test says no too",
}

WRAP = ("-Wl,--wrap=stoAlloc", "-Wl,--wrap=stoFree", "-Wl,--wrap=stoResize")
TLC_EXTRA = ("-noGenerateSpecTE",)
EV_PER_CHUNK = 60000
# The TLC runs of this check are many and short: the C2 compiler threads cost three times what they save
# (measured: 40k-event trace 8.7 s -> 2.8 s CPU).  Long single traces of the thorough tier keep the default.
JVM_SHORT = {"JAVA_TOOL_OPTIONS": "-XX:TieredStopAtLevel=1 -XX:ParallelGCThreads=2"}
JVM_LONG = {"JAVA_TOOL_OPTIONS": "-XX:ParallelGCThreads=2"}


class Ctx(object):
    def __init__(self, chk, tier):
        self.chk = chk
        self.tier = tier
        self.dir = vlib.scratch("c20")
        self.lock = threading.Lock()
        self.bads = []            # (part, script_lines or None, record)
        self.drift = 0
        self.drift_impl = 0       # code's DNF differs from DnfImpl.tla's prediction (implementation-shaped: never an alarm)
        self.drift_impl_ex = None
        self.events = {}          # ev -> count
        self.nevents = 0
        self.ncases = {}          # label -> cases replayed
        self.samples = {}
        self.errors = []


def _count_events(path, ctx):
    n = 0
    cnt = {}
    with open(path) as fh:
        for line in fh:
            n += 1
            i = line.find('"ev":"')
            j = line.find('"', i + 6)
            ev = line[i + 6:j]
            cnt[ev] = cnt.get(ev, 0) + 1
    with ctx.lock:
        ctx.nevents += n
        for k, v in cnt.items():
            ctx.events[k] = ctx.events.get(k, 0) + v
    return n


def validate(ctx, part, trace, label, lines=None, natoms=4):
    """One TLC trace-validation run over one recorded file."""
    n = _count_events(trace, ctx)
    if n == 0:
        raise vlib.MachineryError("empty trace %s" % trace)
    if part == "dnf":
        mod, cfg = "TraceDnf", "TraceDnf%d" % natoms
    else:
        mod, cfg = "TraceContainers", "TraceContainers"
    env = dict(JVM_LONG if n > 150000 else JVM_SHORT)
    env["TRACE"] = trace
    res = vlib.tlc(mod, cfg, workers=1, env=env, timeout=1700, xmx="3g", xss="256m", extra=TLC_EXTRA)
    with ctx.lock:
        ctx.chk.add_tlc("%s:%s" % (mod, label), res)
        if res.violated:
            # the trace could not be consumed to its end, or a type invariant of the model broke
            ctx.bads.append((part, lines, {"l": -1, "case": -1, "ev": "?", "why": "trace-rejected:%s" % res.violated,
                                           "info": "", "kind": "trace", "detail": res.trace_text[-3000:], "label": label}))
        seen = set()
        for p in res.printed:
            if p.startswith("BAD "):
                rec = json.loads(p[4:])
                if rec["l"] in seen:
                    continue
                seen.add(rec["l"])
                rec["label"] = label
                ctx.bads.append((part, lines, rec))
            elif p.startswith("DRIFT-IMPL "):
                ctx.drift_impl += 1
                ctx.drift_impl_ex = ctx.drift_impl_ex or p[11:400]
            elif p.startswith("DRIFT "):
                ctx.drift += 1
        ctx.chk.traces += 1
    return res


def run_harness(ctx, drv, args, what):
    r = subprocess.run([drv] + args, stdout=subprocess.PIPE, stderr=subprocess.PIPE, timeout=1500)
    if r.returncode != 0:
        raise vlib.MachineryError("harness %s failed (%s): %s" % (what, r.returncode, r.stderr.decode(errors="replace")[-2000:]))


def replay_script(ctx, pool, drv, part, label, lines, ev_per_case, natoms=4):
    """Write the cases, run the harness in shards, validate every shard's trace. Returns futures."""
    script = os.path.join(ctx.dir, "%s.script" % label)
    with open(script, "w") as fh:
        fh.write("\n".join(lines) + "\n")
    nsh = max(1, min(48, int(math.ceil(len(lines) * ev_per_case / float(EV_PER_CHUNK)))))
    with ctx.lock:
        ctx.ncases[label] = len(lines)
        ctx.samples[label] = lines[len(lines) // 2]
    futs = []

    def shard(i):
        out = os.path.join(ctx.dir, "%s.%d.ndjson" % (label, i))
        run_harness(ctx, drv, ["script", script, out, str(i), str(nsh)], label)
        return validate(ctx, part, out, "%s#%d" % (label, i), lines=lines, natoms=natoms)
    for i in range(nsh):
        futs.append(pool.submit(shard, i))
    return futs


def gen_containers(ctx, pool, drv, cfg, label, param, ev_per_case):
    res = vlib.tlc("Containers", cfg, workers=2, timeout=1500, xmx="4g", extra=TLC_EXTRA, env=JVM_SHORT)
    with ctx.lock:
        ctx.chk.add_tlc("Containers:" + cfg, res)
    if res.violated:
        with ctx.lock:
            ctx.chk.violation("design model Containers.tla violates %s (%s)" % (res.violated, cfg), res.trace_text,
                              key={"model": "Containers", "inv": res.violated})
        return []
    recs = c20_gen.parse_printed(res.printed)
    if not recs:
        raise vlib.MachineryError("generator %s exported nothing" % cfg)
    lines = sorted(set(c20_gen.history_case(r, param) for r in recs))
    return replay_script(ctx, pool, drv, "containers", label, lines, ev_per_case)


def gen_dnf(ctx, pool, drv, cfg, label, ev_per_case):
    res = vlib.tlc("Dnf", cfg, workers=2, timeout=1500, xmx="4g", extra=TLC_EXTRA, env=JVM_SHORT)
    with ctx.lock:
        ctx.chk.add_tlc("Dnf:" + cfg, res)
    if res.violated:
        with ctx.lock:
            ctx.chk.violation("design model Dnf.tla violates %s (%s)" % (res.violated, cfg), res.trace_text,
                              key={"model": "Dnf", "inv": res.violated})
        return []
    recs = c20_gen.parse_printed(res.printed)
    if not recs:
        raise vlib.MachineryError("generator %s exported nothing" % cfg)
    lines = ["L 4"] + [c20_gen.dnf_case(r) for r in recs]
    return replay_script(ctx, pool, drv, "dnf", label, lines, ev_per_case)


def model_only(ctx, module, cfg, expect_violation=None):
    """(A) only: TLC on a module of the design.  expect_violation: the run documents a defect of the pinned
    commit at design level (DnfImpl as written); its counterexample is recorded, it is not a verdict on the code."""
    res = vlib.tlc(module, cfg, workers=4, timeout=1500, xmx="4g", extra=TLC_EXTRA, env=JVM_SHORT)
    with ctx.lock:
        if expect_violation:
            if res.error:
                raise vlib.MachineryError("TLC run %s failed: %s" % (cfg, res.error))
            ctx.chk.extra["design_level_%s" % cfg] = {
                "violated": res.violated, "note": "implementation-shaped model of dnf.c as written; the code itself is judged "
                "by trace validation against Dnf.tla", "counterexample": res.trace_text[:600]}
            return
        ctx.chk.add_tlc("%s:%s" % (module, cfg), res)
        if res.violated:
            ctx.chk.violation("design model %s violates %s (%s)" % (module, res.violated, cfg), res.trace_text,
                              key={"model": module, "inv": res.violated})


def random_history(ctx, drv, kind, seed, steps, param, label):
    out = os.path.join(ctx.dir, "%s.ndjson" % label)
    run_harness(ctx, drv, ["random", kind, str(seed), str(steps), str(param), out], label)
    with ctx.lock:
        ctx.ncases[label] = 1
    return validate(ctx, "containers", out, label)


def bad_key(part, rec):
    if part == "dnf":
        k = {"part": "dnf", "kind": rec.get("kind"), "why": rec.get("why"), "ev": rec.get("ev")}
        if rec.get("kind") in ("construct", "other"):
            k["cancel_rule"] = bool(rec.get("cancel_rule"))
        if rec.get("kind") in ("implies", "equal") and rec.get("why") == "says-no-truth-table-says-yes":
            # the recorded incompleteness is that of the pinned algorithm on the DNFs the pinned constructors build
            k["as_pinned"] = bool(rec.get("as_pinned"))
        return k
    k = {"part": "containers", "ev": rec.get("ev"), "why": rec.get("why"), "info": rec.get("info", "")}
    if rec.get("taint"):
        k["taint"] = rec["taint"]
    return k


def single_case(line):
    """C20_CASE='<script line>' bin/verif check C20: run one case alone, show the recorded events and TLC's verdict."""
    b = vlib.vbuild()
    drv = vlib.harness_build("containers_drv", [os.path.join(vlib.VERIF, "harness", "containers_drv.c")], b, extra=WRAP)
    wd = vlib.scratch("c20r")
    with open(os.path.join(wd, "s"), "w") as fh:
        fh.write(line + "\n")
    subprocess.run([drv, "script", os.path.join(wd, "s"), os.path.join(wd, "t.ndjson")], stderr=subprocess.DEVNULL)
    print(open(os.path.join(wd, "t.ndjson")).read())
    dnf = line[0] in "FQqL"
    res = vlib.tlc("TraceDnf" if dnf else "TraceContainers", "TraceDnf10" if dnf else "TraceContainers", workers=1,
                   env={"TRACE": os.path.join(wd, "t.ndjson")}, timeout=300, extra=TLC_EXTRA)
    if res.error:
        raise vlib.MachineryError(res.error)
    bad = [p for p in res.printed if p.startswith("BAD ")]
    print("\n".join(bad) or "accepted by the specification")
    return res, bad


def run(chk, tier):
    if os.environ.get("C20_CASE"):
        # a reproduction aid, not a run of the check: the evidence file of the last real run is put back afterwards
        import atexit
        evp = os.path.join(vlib.VERIF, "evidence", "C20.json")
        old = open(evp).read() if os.path.exists(evp) else None
        atexit.register(lambda: old is not None and open(evp, "w").write(old))
        res, bad = single_case(os.environ["C20_CASE"])
        chk.add_tlc("single-case", res)
        chk.traces = 1
        chk.case(os.environ["C20_CASE"])
        chk.case("(single case run)")
        chk.sample(os.environ["C20_CASE"])
        chk.rule = "one case given in C20_CASE"
        for p in bad:
            rec = json.loads(p[4:])
            chk.violation("single case: %s %s" % (rec.get("ev"), rec.get("why")), rec, key=bad_key("dnf" if os.environ["C20_CASE"][0] in "FQqL" else "containers", rec))
        return
    thorough = tier == "thorough"
    b = vlib.vbuild()
    drv = vlib.harness_build("containers_drv", [os.path.join(vlib.VERIF, "harness", "containers_drv.c")], b, extra=WRAP)
    ctx = Ctx(chk, tier)
    seed = chk.seed
    steps = 100000 if thorough else 10000
    suf = "_thorough" if thorough else ""
    pool = ThreadPoolExecutor(max_workers=max(4, vlib.NCPU))       # harness shards + trace validations
    gpool = ThreadPoolExecutor(max_workers=12)                      # generators (each a multi-worker TLC)
    first = []

    # (C) random long histories start at once: they do not depend on a generator
    rnd = [("T", "m8", "rndT-m8"), ("T", "id", "rndT-id"), ("T", "null", "rndT-null"),
           ("B", 2, "rndB-t2"), ("B", 3, "rndB-t3"), ("B", 8, "rndB-t8"),
           ("P", 64, "rndP-ties"), ("P", 1000000, "rndP-wide"), ("V", 0, "rndV")]
    for i, (kind, param, label) in enumerate(rnd):
        first.append(pool.submit(random_history, ctx, drv, kind, seed + 101 * i, steps, param, label))
        if thorough:                     # a second, independent history of every kind
            first.append(pool.submit(random_history, ctx, drv, kind, seed + 101 * i + 50021, steps, param, label + "-b"))

    # (A)+(B) generators; each returns the futures of its shards
    gens = []
    gens.append(gpool.submit(gen_dnf, ctx, pool, drv, "DnfGenF", "dnfF", 5.5))
    gens.append(gpool.submit(gen_dnf, ctx, pool, drv, "DnfGenQ", "dnfQ", 5))
    gens.append(gpool.submit(gen_containers, ctx, pool, drv, "ContainersGenT" + suf, "genT", "tiny", 5 if not thorough else 6))
    gens.append(gpool.submit(gen_containers, ctx, pool, drv, "ContainersGenB" + suf, "genB", 2, 14))
    gens.append(gpool.submit(gen_containers, ctx, pool, drv, "ContainersGenBdeep" + suf, "genBdeep", 2, 28))
    gens.append(gpool.submit(gen_containers, ctx, pool, drv, "ContainersGenP" + suf, "genP", 1, 11))
    gens.append(gpool.submit(gen_containers, ctx, pool, drv, "ContainersGenV", "genV", (3, 2), 4))
    gens.append(gpool.submit(gen_containers, ctx, pool, drv, "ContainersGenVseq" + suf, "genVseq", (3, 2), 5))
    first.append(gpool.submit(model_only, ctx, "Dnf", "DnfModel" + suf))
    first.append(gpool.submit(model_only, ctx, "TableImpl", "TableImplT"))
    first.append(gpool.submit(model_only, ctx, "TableImpl", "TableImplP" + suf))
    first.append(gpool.submit(model_only, ctx, "DnfImpl", "DnfImplFixed" + suf))
    first.append(gpool.submit(model_only, ctx, "DnfImpl", "DnfImplAsWritten", "ImplOk"))

    # (C) random formulas: inputs from the seed, judged by TLC
    nf4, nq4, nf10, nq10 = (60000, 20000, 6000, 3000) if thorough else (2500, 1200, 300, 200)
    first += replay_script(ctx, pool, drv, "dnf", "dnfRnd4", c20_gen.random_dnf_cases(seed + 7, 4, nf4, nq4, 3, 5), 12)
    first += replay_script(ctx, pool, drv, "dnf", "dnfRnd10", c20_gen.random_dnf_cases(seed + 8, 10, nf10, nq10, 3, 6), 300, natoms=10)

    futs = list(first)
    for g in gens:
        futs += g.result()
    for f in futs:
        f.result()
    pool.shutdown()
    gpool.shutdown()

    # ---- forward TLC's verdicts
    groups = {}
    for part, lines, rec in ctx.bads:
        if part == "dnf" and rec.get("ev") == "DMk" and rec.get("cancel_rule"):
            # the finished formula is wrong because a construction step (already reported) was
            k = {"part": "dnf", "kind": "construct", "why": "result", "ev": "DMk", "cancel_rule": True}
        else:
            k = bad_key(part, rec)
        ks = json.dumps(k, sort_keys=True)
        g = groups.setdefault(ks, {"key": k, "n": 0, "examples": []})
        g["n"] += 1
        if len(g["examples"]) < 3:
            ex = dict(rec)
            if lines is not None and isinstance(rec.get("case"), int) and 0 <= rec["case"] < len(lines):
                ex["case_line"] = lines[rec["case"]]
            g["examples"].append(ex)
    for ks in sorted(groups):
        g = groups[ks]
        k = g["key"]
        what = "%s: %s %s (%s%s), %d recorded events rejected by the specification; e.g. %s" % (
            k["part"], k.get("ev"), k.get("why"), k.get("info", k.get("kind", "")),
            ", cancel rule reachable" if k.get("cancel_rule") else "", g["n"],
            json.dumps(g["examples"][0].get("case_line") or g["examples"][0].get("event"))[:300])
        chk.violation(what, {"count": g["n"], "examples": g["examples"]}, key=k)

    # ---- evidence
    need = ["TSet", "TGet", "TDrop", "TIter", "TCopy", "TSwap", "TRemIf", "TMap", "BIns", "BDel", "BEq", "BGe", "BMin", "BMax",
            "BDump", "PIns", "PExt", "PPeek", "PCheck", "VSet", "VNot", "VAnd", "VOr", "VMinus", "VCount", "VCountTo", "VMax",
            "VEq", "VResize", "VFromInt", "VToInt", "DNot", "DAnd", "DOr", "DMk", "DImp", "DEq"]
    missing = [e for e in need if ctx.events.get(e, 0) == 0]
    if missing:
        raise vlib.MachineryError("operations never exercised: %s" % missing)
    total_cases = sum(ctx.ncases.values())
    chk.evaluations = total_cases
    chk.distinct_count_extra = total_cases          # script lines are de-duplicated sets; random runs differ by seed/params
    for label in sorted(ctx.samples):
        chk.sample({"set": label, "case": ctx.samples[label]}, cap=12)
    chk.exhaustive = True
    chk.rule = ("cases = (a) every maximal history TLC's GenSpec of Containers.tla exports: table 4 keys/3 hash values (2 "
                "colliding chains), Set/Get/Drop + one of Copy/Swap/RemoveIf/NMap, length %d; B-tree t=2 keys {1,2,3} "
                "Insert/Delete length %d and after a 9-key prefix (3 levels) length +%d; priq keys {1,2,3} Insert/Extract "
                "length %d incl. Extract on empty; bitv 3 bits x 2 registers: all 64 loaded states x every operation, and "
                "operation pairs incl. Resize; every call followed by a full dump and all observers; (b) every formula of "
                "operator depth <= 2 over 4 atoms (97030) and every ordered pair of depth <= 1 formulas (48400) for "
                "Implies/Equal; (c) seeded random: %d-step histories (table x3 hash modes, B-tree t=2,3,8, priq x2, bitv "
                "12 sizes) and random formulas over 4 and 10 atoms. A case is non-trivial if it has at least one "
                "mutating call / one operator; the sets are de-duplicated so every counted case is distinct."
                % ((5, 8, 6, 9, steps) if thorough else (4, 6, 4, 7, steps)))
    chk.extra.update({
        "events_validated": ctx.nevents,
        "events_by_kind": dict(sorted(ctx.events.items())),
        "cases_by_set": ctx.ncases,
        "bad_events_by_key": [{"key": g["key"], "count": g["n"]} for g in groups.values()],
        "drift": {"dnfIsTrue/dnfIsFalse fail to recognise a constant DNF (not a violation: soundness only is required)": ctx.drift,
                  "finished formulas whose DNF differs from the prediction of DnfImpl.tla (dnf.c as written)": ctx.drift_impl,
                  "first": ctx.drift_impl_ex},
    })
    chk.assumptions += [
        "btreeDelete is only called with a key the tree contains, btreeSearchMin/Max results are only read on a non-empty "
        "tree (callers' obligation in the code; an absent key makes btreeDelete0 follow a leaf's branch pointer)",
        "tblRemoveIf is modelled as the code and its comment have it (NULLs the element, keeps the entry)",
        "the harness routes the modules' stoAlloc/stoFree/stoResize through a guard that pads blocks with a canary and "
        "refuses frees of non-blocks; such events are reported to the specification as memory=ovf/badfree",
        "hash and equality functions are supplied by the harness (8-valued, perfect, and none = pointer identity)",
    ]


def replay(d):
    """bin/verif replay C20 <file>: re-run the first example's case alone and show TLC's verdict."""
    ex = (d.get("detail") or {}).get("examples") or []
    line = next((e.get("case_line") for e in ex if e.get("case_line")), None)
    if not line:
        print("no single case recorded for this violation (random history: re-run the check with the same VERIF_SEED)")
        return 0
    res, bad = single_case(line)
    return 1 if bad or res.violated else 0


SELFTEST_NOTES = """
Binding demonstration (2026-10-04; scratch worktree /tmp/wt-c20fix of /repo, VERIF_SRC=<worktree>/aldor/aldor/src,
`bin/verif check C20 --tier quick`; every run exit 1 with VIOLATION lines that are not known findings; worktree removed):
 M1  table.c  BUCKET_SEARCH without move-to-front (tblDrop then unlinks the chain head's predecessors)  CAUGHT  TDrop/TGet/TIter/TCopy, e.g. "T tiny D0 S0,2 S2,3 D0" (short histories) and the random histories
 M2  table.c  tblEnlarge rehashes with the old bucket count                       CAUGHT  only by the random histories (needs > 35 entries): TGet/TSize/TIter
 M3  table.c  tblCopy forgets the count                                           CAUGHT  TCopy size, "T tiny D0 D0 S0,3 C"
 M4  btree.c  btreeSplitChild copies t-1 instead of t branches                    CAUGHT  BIns faults (sig11) in the 9-key-prefix histories and the random ones
 M5  btree.c  btreeSearchGE never returns the remembered ancestor                 CAUGHT  BGe + the searches piggybacked on BIns/BDel
 M6  btree.c  btreeDelete0 `if (i == x->nKeys) i--` disabled                      CAUGHT  BCheck rc=-9, BDel faults, "skipped-but-present"
 M7  priq.c   heapParent(i) = i/2                                                 CAUGHT  PExt/PPeek return a non-minimum; PCheck fails with distinct keys
 M8  priq.c   heapSiftOutward ignores the last right child                        CAUGHT  PExt, "P 1 I1,1 I2,2 I1,3 I2,4 X I2,6 I1,7"
 M9  bitv.c   bitvEqual without the last-word mask                                CAUGHT  eq observer after every bitv call, VEq
 M10 bitv.c   bitvCountTo stops one bit early                                     CAUGHT  cto observer (all n) on every short history
 M11 bitv.c   bitvMinus computes xor                                              CAUGHT  "V 3 2 f0,5 f1,6 -0,0,1 ..."
 M12 dnf.c    dnfAnd drops the product of the second clauses                      CAUGHT  DAnd/DNot/DMk with cancel_rule=false
 M13 dnf.c    dnfImplies calls dnfAndImplies with swapped arguments               CAUGHT  DImp says-yes-truth-table-says-no, "Q ~ F ; n4"
 M14 dnf.c    dnfAndMerge keeps a literal and its negation                        CAUGHT  DAnd/DMk
 M15 dnf.c    dnfAndImplies ignores the sign (lives where the known cancel-rule defect lives)  CAUGHT  DEq/DImp says-yes..., DOr/DAnd with cancel_rule=false
 none missed.  Known-finding keys only cover: dnf construct with cancel_rule=true, dnfImplies/dnfEqual saying no where the truth
 table says yes, priqCheck with equal keys present, priqExtractMin on empty, bitvResize to more words.  A priqCheck failure with
 equal keys in the queue is attributed to the known finding (rndP-wide uses 10^6 keys so that PCheck is effective there).
Candidate fixes: with hooks/fix-C20-{priq-check-and-empty,bitv-resize-free,dnf-cancel-negation,dnf-implies-complete}.diff applied in the
 worktree the quick tier held with no KNOWN-FINDING line at all (every finding is explained by its patch; the patches break nothing the
 check sees).
Corrupted events (spec/TraceContainers, TraceDnf on a recorded good trace, each accepted before the edit):
 TGet v 2->3: BAD TGet result; BDel e 1->2 (entry not under that key): BAD BDel result; PExt (2,2)->(3,1) (not a minimum): BAD PExt
 result; TDrop line deleted: BAD at the next TGet (size/iteration disagree); DAnd r [[1,-3],[2,-3]] -> [[1,-3],[2]]: BAD DAnd + DMk.
Model sanity: TableImpl.tla with Drop = Tail(chain) violates Refines after 195 states; SiftIn with the comparison reversed violates
 HeapOrder after 7 states; DnfImpl.tla as written violates ImplOk ((3&4)|(~4&~3)), with the fix it holds for all 97030 formulas;
 the code's DNF equalled DnfImpl's prediction for every finished formula of both tiers (drift 0), buggy results included.
Unchanged tree: quick held with VERIF_SEED=20261004 (74 s, 87 s) and 777 (87 s) at machine load 100-160; thorough held in 990 s.
"""
