"""C14 -- Parsing does not depend on layout.

TLC (spec/Layout.tla over spec/Linear.tla, spec/Scan.tla) enumerates block trees x layout styles, checks
LayoutIndependent on the transcription of linear.c, and exports every rendering character by character.
Each rendering goes through the compiler built from /repo's working tree (`aldor -WD+lin -Fap`); the .ap
files of all renderings of one tree must be byte-identical and all must be accepted or all rejected.
The lineariser's own stage dumps (-WD+lin) are compared with the spec's streams: drift only.
"""
import json
import os
import shutil
import subprocess
import sys
import time

sys.path.insert(0, os.path.join(os.path.dirname(os.path.dirname(os.path.abspath(__file__))), "lib"))
sys.path.insert(0, os.path.join(os.path.dirname(os.path.dirname(os.path.abspath(__file__))), "gen"))
import vlib      # noqa: E402
import layout    # noqa: E402

META = {
    "title": "Parsing does not depend on layout",
    "level": "model_checking",
    "technique": "TLC on Layout.tla/Linear.tla/Scan.tla (exhaustive block trees x styles), replay of every exported "
                 "rendering through aldor -Fap with byte comparison of the .ap files, -WD+lin stage dumps as drift",
    "design_ref": "DESIGN.md §3.7, §5 C14",
    "level_text": "explicit TLA+ model of scan.c/linear.c checked exhaustively within bounds; every rendering TLC "
                  "produced is executed against the compiler built from the working tree",
    "level_note": "bounded: trees/styles listed in coverage.rule; the parser itself (axl.z) is not modelled, it is "
                  "observed through the .ap files",
}

MAX_REPORT = 40


# ---------------------------------------------------------------------------
# running the compiler over many small files

def fast_scratch(prefix):
    """Scratch directory for tens of thousands of tiny files: on tmpfs when there is one (removed with the others)."""
    if os.path.isdir("/dev/shm") and os.access("/dev/shm", os.W_OK) and "VERIF_TMP" not in os.environ:
        import tempfile
        d = tempfile.mkdtemp(prefix="aldor-verif-%s-" % prefix, dir="/dev/shm")
        vlib._scratch_dirs.append(d)
        return d
    return vlib.scratch(prefix)


def compile_all(build, texts, want_lin=True, jobs=None):
    """texts: list of str.  Returns list of dicts {rc, ap (bytes|None), out (str)} in order."""
    jobs = jobs or vlib.NCPU
    d = fast_scratch("c14")
    n = len(texts)
    for i, t in enumerate(texts):
        with open(os.path.join(d, "r%d.as" % i), "w") as fh:
            fh.write(t)
    base = [build["aldor"], "-Nfile=" + os.path.join(vlib.SRC, "aldor.conf")]
    flags = (["-WD+lin"] if want_lin else []) + ["-Fap"]
    cmdline = " ".join("'%s'" % a for a in base + flags)
    procs = []
    for j in range(jobs):
        idx = list(range(j, n, jobs))
        if not idx:
            continue
        sp = os.path.join(d, "job%d.sh" % j)
        with open(sp, "w") as fh:
            fh.write("cd '%s'\n" % d)
            fh.write("for i in %s; do\n" % " ".join(str(i) for i in idx))
            fh.write("  timeout 20 %s r$i.as > r$i.out 2> r$i.err; echo $? > r$i.rc\n" % cmdline)
            fh.write("done\n")
        procs.append(subprocess.Popen(["sh", sp], stdout=subprocess.DEVNULL, stderr=subprocess.DEVNULL))
    for p in procs:
        p.wait()
    res = []
    for i in range(n):
        try:
            rc = int(open(os.path.join(d, "r%d.rc" % i)).read().strip())
        except (IOError, ValueError):
            raise vlib.MachineryError("compiler run %d left no status" % i)
        ap = None
        app = os.path.join(d, "r%d.ap" % i)
        if os.path.exists(app):
            ap = open(app, "rb").read()
        out = open(os.path.join(d, "r%d.out" % i), errors="replace").read()
        err = open(os.path.join(d, "r%d.err" % i), errors="replace").read()
        res.append({"rc": rc, "ap": ap, "out": out, "err": err})
    shutil.rmtree(d, ignore_errors=True)
    return res


def scan_key(r):
    """What the scanner model says about a rendering: the first token the code reads differently."""
    sc = r.get("scan") or {"ok": True}
    if sc.get("ok", True):
        return {"scan_want": None, "scan_got": None}
    return {"scan_want": (sc["want"] or ["<end>"])[0], "scan_got": "column" if sc.get("column") else sc.get("gotkind")}


def outcome(r):
    """What the property talks about: accepted or not, and the parse tree written by -Fap."""
    if r["rc"] >= 124 or r["rc"] < 0:
        return ("fault", r["rc"])
    return ("accepted" if r["rc"] == 0 else "rejected", r["ap"])


# ---------------------------------------------------------------------------

def replay_renders(chk, build, renders, label, stats):
    """Run all renderings; compare .ap within each tree; record drift of the -WD+lin streams."""
    texts = [layout.text_of(r) for r in renders]
    t0 = time.time()
    results = compile_all(build, texts)
    stats["compile_wall_s"] = round(stats.get("compile_wall_s", 0) + time.time() - t0, 2)
    groups = {}
    for i, r in enumerate(renders):
        groups.setdefault(r["key"], []).append(i)
    nviol = 0
    for key, idxs in groups.items():
        # reference: the plainest rendering of the tree
        idxs = sorted(idxs, key=lambda i: (not renders[i]["holds"], renders[i]["sty"]["mode"] != "braced",
                                           renders[i]["sty"]["cont"] != "none", i))
        ref = idxs[0]
        oref = outcome(results[ref])
        if oref[0] == "fault":
            chk.violation("compiler fault (status %s) on a rendering of %s" % (oref[1], renders[ref]["name"]),
                          {"source": texts[ref], "stderr": results[ref]["err"][-2000:]},
                          key={"program": renders[ref]["name"], "style": layout.style_text(renders[ref]["sty"]), "kind": "fault"})
            continue
        chk.case(("tree", label, key), nontrivial=len(idxs) > 1)
        for i in idxs[1:]:
            o = outcome(results[i])
            chk.traces += 1
            if o == oref:
                continue
            kind = "fault" if o[0] == "fault" else ("accept-differs" if o[0] != oref[0] else "ap-differs")
            stats["replay_mismatches"] = stats.get("replay_mismatches", 0) + 1
            if nviol >= MAX_REPORT:     # enough replay files; known findings never count towards the cap
                k0 = dict(scan_key(renders[i]) if not renders[i]["holds"] else scan_key(renders[ref]))
                if not any(f.get("status") == "open" and vlib.finding_matches(f, k0) for f in chk.findings):
                    stats["violations_not_reported"] = stats.get("violations_not_reported", 0) + 1
                continue
            what = {"fault": "compiler fault on one layout of a program that compiles in another layout",
                    "accept-differs": "one layout of a program is %s, another layout of the same program is %s" % (oref[0], o[0]),
                    "ap-differs": "two layouts of one program give different parse trees (-Fap)"}[kind]
            nviol += 1 if chk.violation("%s: %s [%s] vs [%s]" % (what, renders[i]["name"], layout.style_text(renders[ref]["sty"]),
                                                   layout.style_text(renders[i]["sty"])),
                          {"reference_source": texts[ref], "source": texts[i],
                           "reference_ap": (oref[1] or b"").decode(errors="replace")[:4000],
                           "ap": (o[1] or b"").decode(errors="replace")[:4000] if not isinstance(o[1], int) else o[1],
                           "reference_rc": results[ref]["rc"], "rc": results[i]["rc"],
                           "stderr": results[i]["out"][-1500:] if results[i]["rc"] else ""},
                          key=dict(scan_key(renders[i]) if not renders[i]["holds"] else scan_key(renders[ref]),
                                   program=renders[i]["name"], style=layout.style_text(renders[i]["sty"]),
                                   ref_style=layout.style_text(renders[ref]["sty"]), kind=kind)) else 0
        chk.traces += 1
    # drift: the lineariser's own dumps against the spec's streams
    drift = stats.setdefault("drift", {"compared": 0, "stage_mismatch": {}, "first": []})
    rules = stats.setdefault("rules_exercised", {})
    for i, r in enumerate(renders):
        if results[i]["rc"] >= 124:
            continue
        got = layout.parse_lin_debug(results[i]["out"])
        exp = r["streams"]
        drift["compared"] += 1
        for st in ("starting", "ending", "mid", "leaving"):
            if st not in got:
                drift["stage_mismatch"]["missing-" + st] = drift["stage_mismatch"].get("missing-" + st, 0) + 1
                continue
            if got[st] != exp[st]:
                drift["stage_mismatch"][st] = drift["stage_mismatch"].get(st, 0) + 1
                if len(drift["first"]) < 5:
                    k = next((j for j in range(min(len(got[st]), len(exp[st]))) if got[st][j] != exp[st][j]),
                             min(len(got[st]), len(exp[st])))
                    drift["first"].append({"program": r["name"], "style": layout.style_text(r["sty"]), "stage": st,
                                           "at": k, "spec": exp[st][max(0, k - 3):k + 4], "code": got[st][max(0, k - 3):k + 4]})
        s, e, m, l = exp["starting"], exp["ending"], exp["mid"], exp["leaving"]
        for name, cnt in (("comment_removed", sum(1 for t in s if t.startswith("--"))),
                          ("blank_line_removed", sum(1 for a, b2 in zip(s, s[1:]) if a == "<NL>" and b2 == "<NL>")),
                          ("settab", e.count("<SETTAB>")), ("backset", e.count("<BACKSET>")),
                          ("semicolon_inserted_after_}", len(m) - len(e)),
                          ("semicolon_deleted", len(m) - len(l))):
            if cnt > 0:
                rules[name] = rules.get(name, 0) + 1
    return results


def spec_dir(seed, progs=None):
    """A scratch copy of the C14 modules with the seed written into the configurations and LayoutVocab generated
    (with the programs, if any)."""
    d = vlib.scratch("c14spec")
    for f in ("Scan.tla", "Linear.tla", "Layout.tla", "ScanPairs.tla", "ScanPairs.cfg"):
        shutil.copy(os.path.join(vlib.SPEC, f), d)
    for f in os.listdir(vlib.SPEC):
        if f.startswith("Layout") and f.endswith(".cfg"):
            t = open(os.path.join(vlib.SPEC, f)).read().replace("Seed = 0", "Seed = %d" % seed)
            open(os.path.join(d, f), "w").write(t)
    text = layout.emit_vocab(os.path.join(d, "LayoutVocab.tla"), progs=progs)
    if progs is None and text != open(os.path.join(vlib.SPEC, "LayoutVocab.tla")).read():
        raise vlib.MachineryError("spec/LayoutVocab.tla is not what gen/layout.py generates (run python3 gen/layout.py)")
    return d


def tlc_renders(chk, d, cfg, name, workers, timeout, stats, names=None):
    r = vlib.tlc("Layout", cfg, workers=workers, timeout=timeout, xmx="10g", cwd=d)
    chk.add_tlc(name, r)
    renders = layout.parse_renders(r.printed)
    r.out = ""
    r.printed = []
    if r.violated:
        chk.violation("the model violates %s" % r.violated, r.trace_text, key={"model": "Layout", "cfg": cfg, "inv": r.violated})
    if not renders and not r.violated:
        raise vlib.MachineryError("TLC run %s exported no rendering" % name)
    # non-vacuity: the machine is a chain of 11 actions per (tree, style); all of them were taken for every rendering
    # exactly when the number of distinct states is 12 per rendering (-coverage is unusable here: it exhausts the heap)
    if not r.violated and r.distinct != 12 * len(renders):
        raise vlib.MachineryError("TLC run %s: %d states for %d renderings (expected 12 each)" % (name, r.distinct, len(renders)))
    bad = {}
    for x in renders:
        x["key"] = name + ":" + layout.tree_key(x["tree"])
        x["name"] = layout.tree_text(x["tree"])
        if names:
            x["name"] = names.get(x["tree"][0]["sh"].split("S")[0], x["name"])
        if not x["holds"]:
            k = scan_key(x)
            bad.setdefault((k["scan_want"], k["scan_got"]), []).append(x)
    for (want, got), xs in sorted(bad.items(), key=lambda kv: repr(kv[0])):
        x = xs[0]
        if want is None and got is None:
            what = "the transcription of linear.c linearises a layout of %s differently from its canonical stream" % x["name"]
        else:
            what = ("the transcription of scan.c reads a %s token %r where the program has %r in %d layouts (first: %s [%s])"
                    % (got, (x["scan"]["got"] or ["<end>"])[0], want, len(xs), x["name"], layout.style_text(x["sty"])))
        chk.violation("model: " + what, {"source": layout.text_of(x), "scan": x.get("scan"), "streams": x["streams"],
                                         "count": len(xs)},
                      key={"kind": "model", "scan_want": want, "scan_got": got,
                           "program": x["name"], "style": layout.style_text(x["sty"])})
    stats.setdefault("renderings", {})[name] = len(renders)
    stats.setdefault("model_not_holding", {})[name] = sum(len(v) for v in bad.values())
    return renders


PAIR_SEPS = {"sp": " ", "tab": "\t", "sp2": "  ", "esc": " _\n ", "esc2": " _\n    \t", "com": " --c\n ", "adj": ""}
SENTINEL = "QQQQ"


def scan_pairs(chk, build, d, workers, stats):
    """Scanner level (spec/ScanPairs.tla): every token pair x every separator.  TLC decides which separators change
    the tokens (model level: reported like the other model verdicts); the same texts go through the real scanner and
    its token list (-WD+lin, 'Starting with') is compared with the model's: drift only."""
    r = vlib.tlc("ScanPairs", "ScanPairs", workers=workers, timeout=2400, xmx="8g", cwd=d)
    chk.add_tlc("ScanPairs", r)
    cases = [json.loads(p[5:]) for p in r.printed if isinstance(p, str) and p.startswith("PAIR ")]
    r.out, r.printed = "", []
    if r.violated or not cases:
        raise vlib.MachineryError("ScanPairs run failed: %s" % (r.violated or "no cases"))
    st = stats.setdefault("scan_pairs", {})
    st["cases"] = len(cases)
    st["adjacent_allowed"] = sum(1 for c in cases if c["toks"]["adj"])
    bad = {}
    for c in cases:
        ref = c["toks"]["sp"]
        for n in c["differ"]:
            got = [t for t in c["toks"][n]]
            if n == "com":      # drop the comment and its newline
                i = next((j for j, t in enumerate(got) if t[0] == "com"), None)
                if i is not None:
                    got = got[:i] + got[i + 2:]
            k = next((j for j in range(min(len(ref), len(got))) if ref[j] != got[j]), min(len(ref), len(got)))
            want = ref[k][1] if k < len(ref) else "<end>"
            gk = got[k][0] if k < len(got) else "end"
            bad.setdefault((want, gk, n == "adj"), []).append((c, n))
    st["model_differing"] = {"%s->%s%s" % (w, g, " (adjacent)" if adj else ""): len(v) for (w, g, adj), v in bad.items()}
    for (want, gk, adj), v in sorted(bad.items(), key=repr):
        c, n = v[0]
        if adj:
            raise vlib.MachineryError("Layout!NeedBlank lets %r and %r touch but the scanner model joins them" % (c["a"], c["b"]))
        chk.violation("model: the transcription of scan.c reads a %s token where `%s %s %s` has %r when the separator is %s "
                      "(%d pair/separator cases)" % (gk, c["p"], c["a"], c["b"], want, n, len(v)),
                      {"case": c}, key={"kind": "model-pairs", "scan_want": want, "scan_got": gk,
                                        "program": "%s %s %s" % (c["p"], c["a"], c["b"]), "style": n})
    # the real scanner on the same texts
    segs = []
    for ci, c in enumerate(cases):
        for n, sep in PAIR_SEPS.items():
            if n == "adj" and not c["toks"]["adj"]:
                continue
            segs.append((ci, n, "%s %s%s%s\n" % (c["p"], c["a"], sep, c["b"])))
    per = 1500
    texts = ["".join(t + SENTINEL + "\n" for _, _, t in segs[i:i + per]) for i in range(0, len(segs), per)]
    results = compile_all(build, texts)
    mism = 0
    first = []
    compared = 0
    for fi, res in enumerate(results):
        got = layout.parse_lin_debug(res["out"]).get("starting")
        chunk = segs[fi * per:(fi + 1) * per]
        if got is None:
            mism += len(chunk)
            continue
        parts, cur = [], []
        for t in got:
            if t == SENTINEL:
                parts.append(cur)
                cur = []
            else:
                cur.append(t)
        for j, (ci, n, text) in enumerate(chunk):
            exp = [t[1] for t in cases[ci]["toks"][n]]
            # after a sentinel comes its newline: part j starts with <NL> for j > 0
            g = parts[j] if j < len(parts) else None
            if g is not None and j > 0 and g[:1] == ["<NL>"]:
                g = g[1:]
            compared += 1
            if g != exp:
                mism += 1
                if len(first) < 5:
                    first.append({"text": text, "spec": exp, "code": g})
    st["real_scanner_compared"] = compared
    st["real_scanner_drift"] = mism
    st["real_scanner_drift_first"] = first


def one_part(chk, build, d, cfg, label, workers, timeout, stats, names=None):
    renders = tlc_renders(chk, d, cfg, label, workers, timeout, stats, names)
    replay_renders(chk, build, renders, label, stats)
    for r in renders[:2]:
        chk.sample({"part": label, "program": r["name"], "style": layout.style_text(r["sty"]), "source": layout.text_of(r)})
    return len(renders)


def run(chk, tier):
    import layout_progs
    build = vlib.vbuild()
    stats = {}
    seed = chk.seed % 9973
    workers = vlib.NCPU
    d = spec_dir(seed)
    # the design-level statement, decided by TLC itself (invariants), on the part of the vocabulary where it holds
    r = vlib.tlc("Layout", "LayoutModel", workers=workers, timeout=900, xmx="8g", cwd=d)
    chk.add_tlc("LayoutModel", r)
    if r.violated:
        chk.violation("the model (Layout.tla over the transcription of scan.c/linear.c) violates %s" % r.violated,
                      r.trace_text, key={"model": "Layout", "cfg": "LayoutModel", "inv": r.violated})
    one_part(chk, build, d, "LayoutQuick", "quick", workers, 900, stats)
    dp = spec_dir(seed, progs=layout_progs.PROGS)
    names = {n: n for n, _ in layout_progs.PROGS}
    if tier != "thorough":
        cfgp = open(os.path.join(dp, "LayoutProgs.cfg")).read().replace('StyleSet = "random"', 'StyleSet = "latin"')
        open(os.path.join(dp, "LayoutProgs.cfg"), "w").write(cfgp)
        one_part(chk, build, dp, "LayoutProgs", "programs", workers, 600, stats, names)
    else:
        one_part(chk, build, d, "LayoutThorough1", "thorough1", workers, 1500, stats)
        one_part(chk, build, d, "LayoutThorough2", "thorough2", workers, 900, stats)
        one_part(chk, build, d, "LayoutFull", "full", workers, 1500, stats)
        scan_pairs(chk, build, d, workers, stats)
        for k in range(5):      # 20 programs x 20 styles drawn by the seed, five draws
            cfgp = open(os.path.join(vlib.SPEC, "LayoutProgs.cfg")).read().replace("Seed = 0", "Seed = %d" % (seed + 101 * k))
            open(os.path.join(dp, "LayoutProgs.cfg"), "w").write(cfgp)
            one_part(chk, build, dp, "LayoutProgs", "programs%d" % k, workers, 900, stats, names)
    chk.rule = ("case = one abstract program (block tree) whose renderings are compared: quick = all trees with <= 3 statements, "
                "nesting <= 3, over 13 statement shapes + 12 larger trees, 8 styles each (each of braced/piled/mixed1/mixed2 twice, "
                "each continuation none/stair/hang/esc twice, the escaped breaks in 4 variants (plain, blanks/tabs after `_`, a "
                "blank line after the break, a line holding only `_`); indent width 1..8, blank/white-space/comment lines and trailing "
                "comments at every line boundary, tabs/spaces/mixed, token spacing spread over the trees by the seed) and 20 real "
                "programs x 8 styles; thorough adds all trees <= 3 statements over 18 shapes x 16 styles, all trees <= 4 statements "
                "over 10 shapes x 8 styles, trees <= 2 statements x the full 1792-style cross product, 20 programs x 20 seeded "
                "styles x 5 draws, and at the scanner level every pair of keywords/operators/sample tokens x 7 separators; non-trivial = at least two renderings compared")
    chk.exhaustive = True
    chk.assumptions.append("the decision that two texts are layouts of one program is the spec's (Render in Layout.tla uses only "
                           "the layout rules of the User Guide); the parser (axl.z) is observed through -Fap, not modelled")
    chk.assumptions.append("`++` descriptions, `@` labels, #if/#include inside the programs, bytes >= 0x80 and interactive "
                           "(-Gloop) piling are outside the rendered layouts")
    chk.extra["c14"] = stats


def replay(d):
    """bin/verif replay C14 <file>: compile the two layouts of a recorded violation again with the compiler built from
    the current working tree and say whether they still disagree (exit 1) or not (exit 0)."""
    det = d.get("detail") or {}
    if not isinstance(det, dict) or "source" not in det:
        print("nothing to re-run in this record (model-level verdict)")
        return 0
    build = vlib.vbuild()
    texts = [det["source"]] + ([det["reference_source"]] if "reference_source" in det else [])
    res = compile_all(build, texts, want_lin=False, jobs=2)
    for t, r in zip(texts, res):
        print("---- source\n%s---- exit %d, .ap:\n%s" % (t, r["rc"], (r["ap"] or b"(none)").decode(errors="replace")))
    if len(res) == 2:
        same = outcome(res[0]) == outcome(res[1])
        print("the two layouts %s" % ("agree now" if same else "still disagree"))
        return 0 if same else 1
    return 1 if res[0]["rc"] >= 124 else 0


def selftest():
    """Show that the binding rejects a corrupted record: (i) one extra blank in the lead of one line of a piled
    rendering (a different program by the pile rules) must give a VIOLATION; (ii) one altered token of a recorded
    stage stream must show up as drift; (iii) every action of the model must have been taken."""
    build = vlib.vbuild()
    chk = vlib.Check("C14", "selftest")
    chk.findings = []
    d = spec_dir(0)
    cfg = open(os.path.join(d, "LayoutQuick.cfg")).read().replace("MaxN = 3", "MaxN = 2").replace('"enum+extra"', '"enum"').replace(', "L7"}', '}')
    open(os.path.join(d, "LayoutQuick.cfg"), "w").write(cfg)
    r = vlib.tlc("Layout", "LayoutQuick", workers=8, timeout=900, cwd=d)
    if r.error:
        raise vlib.MachineryError(r.error)
    renders = layout.parse_renders(r.printed)
    untaken = [] if r.distinct == 12 * len(renders) else ["(some action: %d states for %d renderings)" % (r.distinct, len(renders))]
    for x in renders:
        x["key"] = layout.tree_key(x["tree"])
        x["name"] = layout.tree_text(x["tree"])
    stats = {}
    replay_renders(chk, build, renders, "selftest-clean", stats)
    clean = len(chk.violations)
    clean_drift = dict(stats["drift"]["stage_mismatch"])
    # (i) corrupt the lead of the last code line of a piled two-statement block
    victim = next(x for x in renders if x["sty"]["mode"] == "piled" and x["sty"]["cont"] == "none" and x["holds"]
                  and len(x["tree"]) == 2 and not x["tree"][0]["bl"] and not x["tree"][1]["bl"] and not x["sty"]["fbreak"])
    code = [i for i, ln in enumerate(victim["text"]) if ln["toks"] and not ln["toks"][0].startswith(("--", "#"))]
    victim["text"][code[-1]]["lead"] = victim["text"][code[-1]]["lead"] + ["s"]      # now a continuation line
    # (ii) corrupt one token of a recorded stream of another rendering
    other = next(x for x in renders if x is not victim and x["holds"] and len(x["streams"]["leaving"]) > 3)
    other["streams"]["leaving"][2] = "CORRUPT"
    stats2 = {}
    replay_renders(chk, build, renders, "selftest-corrupt", stats2)
    for w, p in chk.violations:
        os.remove(p)
    print("selftest: actions never taken: %s" % (untaken or "none"))
    print("selftest: clean replay: %d violations, drift %s" % (clean, clean_drift))
    print("selftest: corrupted lead -> %d violation(s); corrupted stream -> drift %s"
          % (len(chk.violations) - clean, stats2["drift"]["stage_mismatch"]))
    ok = not untaken and len(chk.violations) - clean >= 1 and stats2["drift"]["stage_mismatch"].get("leaving", 0) >= 1
    print("selftest: %s" % ("ok" if ok else "FAILED"))
    vlib.cleanup_scratch()
    return 0 if ok else 2


SELFTEST_NOTES = """
Binding demonstration (2026-10-04, quick tier, each mutation applied in a scratch `git worktree` of /repo, compiler built by
vlib.vbuild via VERIF_SRC, worktree removed afterwards).  "drift" = number of renderings whose -WD+lin stage dump differs
from Linear.tla's stream (localises the rule; never the reason for the exit status).

 caught (exit 1, VIOLATION lines):
  M1  linear.c isPileRequired without KW_Then          ap-differs (dangling else re-binds), drift ending/mid/leaving 460
  M2  linear.c isPileRequired without KW_Else          ap-differs (`where` re-binds, I2[..][L6]), drift 112
  M3  linear.c isBackSetRequired rule 3 w/o followers  accept-differs (`else` on its own line gets a BackSet), drift 721
  M4  linear.c isBackSetRequired rule 2 w/o KW_Comma   accept-differs (argument list continued after commas), drift 329
  M5  linear.c pile0 `indent0 <= indentS` breaks       ap-differs, drift 2945
  M6  include.c inclCalcIndentLevel tab = +8           ap-differs (needs lines of one pile reached by different blank/tab
                                                        mixes: the `alt` tab style), drift 62
  M7  linear.c linXSep deletes `;` only before closers accept-differs (`} ; else`), drift leaving 194
  M8  token.c `where` no longer a follower             accept-differs (`} ; where`, needs the larger ExtraTrees), drift 18
  M9  scan.c scAdvance1 skips blanks only after `_`    accept-differs (escaped line breaks), drift starting 1460
  M11 linear.c isPileRequired without KW_With          ap-differs, drift 360
  M12 linear.c isPileRequired without KW_Add           accept-differs, drift 360
  M13 linear.c joinUp ignores hadBackSet               accept-differs, drift 2600
  M16 scan.c `--` at the start of a line is no comment accept-differs, drift 2471
 not caught, and rightly so (the parse tree does not change; only drift, or nothing observable):
  M10 linXBlankLines keeps the newline after #pile (the blank first line is skipped by pile0 anyway)    drift 0
  M14 pile0 does not skip blank lines (none is left after linXBlankLines)                                 drift 0
  M15 linISepAfterDontPiles inserts nothing (`} <BackSet>` parses like `} ; <BackSet>`)                   drift mid 580, leaving 390
 first round misses that changed the check: M2/M7 were masked because suppressed known findings used up the cap on
 reported violations (fixed: the cap counts real violations only); M6 needed the `alt` tab style; M8 needed trees with a
 multi-statement block before `where` (ExtraTrees).

Seeded changes from the lead (bin/seedtest, quick tier), missed at first, caught after the escaped-line-break variants
(Layout!EscVariants: blanks/tabs between `_` and the line break, a blank or white-space-only line after the escaped break, a
line holding only `_`; every other escaped continuation at the column of the statement's first line):
  C14-2 scan.c scAdvance1 skips one character of escaped white space   exit 1, 20 VIOLATIONs (accept-differs / ap-differs)
  C14-3 scan.c scAdvance1 without the re-check (`goto restart`)        exit 1, 20 VIOLATIONs (accept-differs)
 unchanged tree with the variants: exit 0 for VERIF_SEED 20261004, 777, 4242; the float-context defect stays a KNOWN-FINDING.

Corrupted record (python3 checks/c14.py --selftest): one blank added to the lead of one line of an exported piled rendering
-> 1 VIOLATION (accept/ap differs); one token of a recorded `leaving` stream replaced -> drift leaving +1; clean replay of
the same renderings -> 0 violations, no drift; every action of the machine taken (12 states per rendering).

Unchanged tree: quick passes (exit 0, KNOWN-FINDING for the `.digits` defect) with VERIF_SEED default and 777.
The candidate patch hooks/candidate-c14-escape-floatstate.diff makes `x := v _<nl>.1` parse like `x := v .1` (checked by hand).
-coverage 1 is unusable with these modules (heap exhaustion on a 5-second configuration); non-vacuity is shown by the
state count (12 states = 11 actions per rendering) instead.
"""


if __name__ == "__main__":
    if "--selftest" in sys.argv:
        sys.exit(selftest())
