"""C07 -- The compiler is total on arbitrary source text and reports honestly.

Inputs are enumerated, and where possible certified invalid, by TLC on explicit modules:
  (a) spec/Total.tla       every string of <= N character classes (13 classes of spec/Scan.tla) x representative bytes
  (b) spec/Mutants.tla     token- and character-level corruptions of valid texts; spec/Directives.tla directive soups;
      spec/Stress.tla      20 000-byte lines, nesting depth 2 000, 256 errors
      spec/Macros.tla      programs of a macro calculus (definitions name(params) ==> body, one use, scopes): expansion
                           that does not terminate, wrong argument count, unreduced macro function are certified invalid
      spec/Calls.tla       applications of functions with positional / defaulted / keyword parameters, overloads and
                           multiple values with one defect; certified invalid when no signature accepts them
  (c) spec/TotalFile.tla   seeded random bytes / printable soups / token soups, judged by the same SrcText!Judge
Every text is compiled by the compiler built from the working tree (one process per text, hook H3 trace) and every
run is judged by TLC as a behaviour of spec/TraceTotal.tla (TraceDriver + fault + certificates): it ends in Exit within
the time bound, without fault / bug / assertion / signal, exit status != 0 exactly when an error was printed, and a
text that the specification certifies invalid yields at least one error.
"""
import json
import os
import random
import sys
import time
from concurrent.futures import ThreadPoolExecutor

import vlib
sys.path.insert(0, os.path.join(vlib.VERIF, "gen"))
import driver_trace as dt      # noqa: E402
import c07_run as cr           # noqa: E402
import c07_inputs as ci        # noqa: E402
import c07_macros as cmac      # noqa: E402
import c07_calls as ccall      # noqa: E402

META = {
    "title": "The compiler is total on arbitrary source text and reports honestly",
    "level": "model_checking",
    "technique": "TLA+ models of scanner/lineariser balance/includer directives, of macro expansion (a term calculus) and of "
                 "function application (positional/default/keyword parameters, overloads, multiple values): TLC enumerates "
                 "the inputs and certifies invalidity; trace validation of every compiler run against the driver model "
                 "(Total, HonestExit, InvalidDiagnosed)",
    "design_ref": "DESIGN.md §5 C07, §3.9, §3.7, §10",
    "level_text": "TLC enumerates every input of the bounded families and judges every recorded run as a behaviour of "
                  "TraceTotal.tla (Driver.tla); the families are exhaustive within their bounds",
    "level_note": "bounded: class strings up to length 4 (quick) / 5 (thorough), sampled mutation positions, finite seeds, macro "
                  "programs of <= 4 definitions and call shapes of <= 4 parameters (strided in the quick tier); "
                  "validity of arbitrary text is not modelled -- only the stated certificates of invalidity are",
}

# minimal texts of the findings recorded on the pinned tree (known_findings.jsonl); compiled in every run (class "known")
# so that the evidence shows whether each still reproduces.  No certificate is attached: they are judged like any text.
FINDING_TEXTS = {
    "lone-hash-eof": (b"#", []),
    "keyIx-negative-index": (b"a _\xe9", []),
    "nul-cuts-line": (b"\x00\n\"abc\n", []),
    "exit-status-wrap": (b"1r;\n" * 256, ["-Mno-emax"]),
    "quit-in-batch": (b"x := (\n#quit\n", []),
    "abDefineeId": (b"():I==()\n", []),
    "bputTPoss": (b'#include "axllib"\nimport from SingleInteger;g3:SingleInteger:=1;g3:=with\n', []),
    "ptrlistFreeDeeplyTo": (b'#include "axllib"\nR1==>Record();R2==>(f1:SI,f3:Boolean);import from()R1 R2;'
                            b'f12(p13:R0,p14:SI):SI=={([]);v17:R1:=([](())())}\n', []),
    "tfSetMeaningArgs": (b'#include "axllib"\nSI==>SingleInteger;g24:List(SI):=([@SI]@List(SI))\n', []),
    "symeExtensionFirst": (b'#include "axllib"\nCatA:Category{{(if false then())}}PD0(T:CatA):CatB=={(())}\n', []),
    "empty-export-message": (b'#include "axllib"\ndefine Ex0: Category == Exception with;\n'
                             b'define Ex0 : Ex0 @ Category == add add ;\n', []),
    "multi-assign-rhs-parts": (b'#include "axllib"\nimport from SingleInteger, Boolean, String;\n'
                               b'fq(): (SingleInteger, Boolean) == (1, true);\n(rq: SingleInteger, sq: String) := fq();\n', []),
    "gen0PatchEEltFormats": (b'#include "foamlib"\n#pile\n\nimport { foo: MachineInteger -> () } from Foreign C("foo.h")\n\n'
                             b'import from MachineInteger\nfoo(2) pretend MachineInteger\n', ci.FOAMLIB_ARGS),
    "foamAuditBadRef": (b'#include "axllib"\nSI==>SingleInteger;BI==>{op4:()->SI;()}DA1==add{op4():SI==((16quo 10)@SI);op5==(false)}'
                        b'g10:Array(SI):=(new(1@SI,(op4()$DA1))@Array(SI));f14(p15:BI):SI=={if(true)then{if true then{}{(add)}'
                        b'if true then{()}{()}if true then{()}{()}}if(9223372036854775807>1@SI)then{if false then{}{()}}'
                        b'{if false then 13@SI}(#(g10))}\n', []),
}

TIME_BOUND = {"known": 5, "enum": 3, "random": 10, "dirs": 10, "mutant": 10, "stress": 120, "macro": 10, "call": 10}
VLIMIT_KB = {"known": 1000000, "enum": 64000, "random": 1000000, "dirs": 1000000, "mutant": 1500000, "stress": 3000000,
             "macro": 1500000, "call": 1500000}
# stack bound (KB) of a class: an expansion that does not terminate exhausts a small stack in milliseconds, the default one
# in seconds (the cost grows with the square of the depth); the texts of the class are a few lines long
STACK_KB = {"macro": 1024}
MAX_REPORT = 25


def _phase_in_progress(events):
    ph = ""
    for e in events:
        if e.get("ev") == "PhStart":
            ph = e.get("ph", "")
        elif e.get("ev") == "PhEnd":
            ph = ""
    return ph


def _bug_text(out):
    import re
    m = re.search(rb"Bug: *\n?(.*)", out)
    if m:           # numbers vary with the token / constant that trips the check: "Bad case N (line N in file absyn.c)"
        return "bug:" + re.sub(r"\d+", "N", m.group(1).decode(errors="replace").strip())
    m = re.search(rb'Assertion failed, file "([^"]*)" line (\d+)', out)
    if m:
        return "assert:%s" % os.path.basename(m.group(1).decode(errors="replace"))
    m = re.search(rb"AddressSanitizer: (\S+) .*\n(?:.*\n)*?\s+#0 \S+ in (\w+) ", out)
    if m:
        return "asan:%s:%s" % (m.group(1).decode(), m.group(2).decode())
    m = re.search(rb"^(\S+\.c):\d+:\d+: runtime error: (.*)$", out, re.M)
    if m:
        return "ubsan:%s:%s" % (m.group(1).decode(), re.sub(r"-?\d+", "N", m.group(2).decode(errors="replace"), count=1))
    return ""


def classify(r, v):
    """What failed, in the vocabulary of the property -- read off the run and TLC's verdict (no decision here)."""
    fault = r.label.get("fault", "")
    if r.timeout:
        return "hang"
    if fault:
        return "fault:" + fault
    if v.how == "invariant":
        names = v.name.split("+")
        if "HonestExit" in names:
            return "dishonest-exit"
        if "InvalidDiagnosed" in names:
            return "no-diagnostic"
        return "outcome:" + v.name
    return "protocol"


def run_family(chk, build, inputs, stats, label, jobs, hooks=True, env_extra=None, tlc_parallel=8, batch=30000):
    """Compile, validate with TLC; returns ([(run, verdict)] of the rejected runs, a few runs for the samples).
    Large families go through in batches so that only the rejected runs stay in memory."""
    if not inputs:
        return [], []
    rejected, keep = [], []
    s = stats.setdefault(label, {"runs": 0, "events": 0, "compile_wall_s": 0.0, "tlc_wall_s": 0.0, "exit0": 0, "exit_nonzero": 0,
                                 "certified_invalid": 0, "rejected_by_tlc": 0})
    tot = {"states": 0, "generated": 0, "tlc_runs": 0}
    for off in range(0, len(inputs), batch):
        part = inputs[off:off + batch]
        t0 = time.time()
        by_cls = {}
        for inp in part:
            by_cls.setdefault(inp.cls, []).append(inp)
        runs = []
        for cls, ins in by_cls.items():
            runs += cr.run_inputs(build, ins, jobs=jobs, timeout=TIME_BOUND[cls], hooks=hooks, env_extra=env_extra,
                                  vlimit_kb=None if env_extra and ("ASAN_OPTIONS" in env_extra) else VLIMIT_KB[cls], tag="c07" + cls,
                                  stack_kb=STACK_KB.get(cls))
        t1 = time.time()
        verdicts, st = cr.validate(runs, chunk=max(200, min(1500, len(runs) // (2 * tlc_parallel) + 1)), parallel=tlc_parallel,
                                   timeout=900)
        t2 = time.time()
        for k in tot:
            tot[k] += st[k]
        s["runs"] += len(runs)
        s["events"] += sum(len(r.events) for r in runs)
        s["compile_wall_s"] = round(s["compile_wall_s"] + t1 - t0, 1)
        s["tlc_wall_s"] = round(s["tlc_wall_s"] + t2 - t1, 1)
        s["exit0"] += sum(1 for r in runs if r.rc == 0)
        s["exit_nonzero"] += sum(1 for r in runs if r.rc != 0)
        s["certified_invalid"] += sum(1 for r in runs if r.inp.cert)
        s["rejected_by_tlc"] += sum(1 for v in verdicts if not v.ok)
        for r in runs:
            chk.case((r.inp.cls, json.dumps(r.inp.name)), nontrivial=True)
        rejected += [(r, v) for r, v in zip(runs, verdicts) if not v.ok]
        if label == "mutant controls":
            keep = runs
        elif label == "call":       # the controls of the rendering
            keep = keep + [r for r in runs if r.inp.label.get("control")]
        elif not keep:
            keep = runs[:3] + runs[-1:]
    chk.traces += s["runs"]
    chk.states += tot["states"]
    chk.transitions += tot["generated"]
    chk.tlc_runs.append({"name": "TraceTotal (%s)" % label, "generated": tot["generated"], "distinct": tot["states"],
                         "wall_s": s["tlc_wall_s"], "processes": tot["tlc_runs"]})
    return rejected, keep


def _base_key(r, v):
    inp = r.inp
    kind = classify(r, v)
    key = {"kind": kind, "class": inp.cls, "features": sorted(inp.feat)}
    if kind.startswith("fault:"):
        txt = _bug_text(r.stdout)
        key["site"] = txt if txt.startswith(("asan:", "ubsan:")) else "phase:" + _phase_in_progress(r.events)
        if txt and not txt.startswith(("asan:", "ubsan:")):
            key["text"] = txt
    elif kind == "hang":
        key["site"] = "phase:" + _phase_in_progress(r.events)
    elif kind == "no-diagnostic":
        key["cert"] = inp.cert
        key["cause"] = "as-read-valid" if not inp.asread else "none"
    elif kind == "dishonest-exit":
        key["errors_mod_256"] = (r.errl % 256) if r.rc == 0 else -1
        key["exit"] = 0 if r.rc == 0 else 1
    elif kind == "protocol":
        ev = v.event or {}
        key["event"] = ev.get("ev", "")
        key["via"] = ev.get("via", "")
    if inp.cls == "mutant":
        key["mutation"] = inp.label.get("mutation")
    if inp.cls == "call":
        key["defect"] = inp.label.get("defect")
    if inp.cls == "macro":
        key["form"] = inp.name[6]       # "ap" alone, "ao" in a typed context, "host" inside a valid text
    return key


def report(chk, build, rejected, stats, tier="quick", asan=False, hooks=True):
    """One violation per rejected run, keyed by (failure kind, crash site / cause, features of the text that TLC derived)."""
    keyed = [(r, v, _base_key(r, v)) for r, v in rejected]
    # --- crash sites under gdb.  The runs are grouped by (key so far, tail of the output) and 3 (quick) / 40 (thorough)
    # evenly spaced members of each group go through gdb; if they agree the group gets their site, otherwise every
    # member is examined.
    need = [(r, v, k) for r, v, k in keyed if k["kind"] in ("fault:program-fault", "fault:signal", "fault:unexpected-signal",
                                                            "fault:bug", "fault:assert") and k["site"].startswith("phase:")]
    if need and not asan:
        def site_of(x):
            return cr.crash_site(build, x[0].inp, stack_kb=STACK_KB.get(x[0].inp.cls)) or x[2]["site"]
        groups = {}
        for x in need:
            groups.setdefault((json.dumps(x[2], sort_keys=True), x[0].stdout[-160:]), []).append(x)
        todo = []
        for g in groups.values():
            nsample = 3 if tier == "quick" else 40
            todo += g if len(g) <= nsample else [g[(j * (len(g) - 1)) // (nsample - 1)] for j in range(nsample)]
        with ThreadPoolExecutor(max_workers=8) as ex:
            got = {id(x[0]): s for x, s in zip(todo, ex.map(site_of, todo))}
        rest = []
        for g in groups.values():
            ss = set(got[id(x[0])] for x in g if id(x[0]) in got)
            if len(ss) == 1:
                for x in g:
                    x[2]["site"] = list(ss)[0]
            else:
                rest += [x for x in g if id(x[0]) not in got]
                for x in g:
                    if id(x[0]) in got:
                        x[2]["site"] = got[id(x[0])]
        if rest:
            with ThreadPoolExecutor(max_workers=8) as ex:
                for x, s2 in zip(rest, ex.map(site_of, rest)):
                    x[2]["site"] = s2
        stats["gdb_runs"] = stats.get("gdb_runs", 0) + len(todo) + len(rest)

    # --- an error that was counted but not printed (exit != 0 without an error line): who reported it
    for r, v, k in keyed:
        if k["kind"] == "dishonest-exit" and k.get("exit") == 1 and not asan:
            k["site"] = cr.error_site(build, r.inp)

    def known(key):
        return any(f.get("status") == "open" and vlib.finding_matches(f, key) for f in chk.findings)
    # --- a hang (or a death by an unexplained signal) that is not a known finding is re-run with ten times the time
    # bound before it is reported: on an overloaded machine the bound itself may have been the cause
    doubt = [(r, v, k) for r, v, k in keyed if k["kind"] in ("hang", "fault:signal") and not known(k)][:64]
    if doubt and not asan:
        ins = []
        for r, v, k in doubt:
            r.inp.timeout = 10 * (r.inp.timeout or TIME_BOUND[r.inp.cls])
            ins.append(r.inp)
        runs2 = [None] * len(ins)
        for cls in sorted(set(i.cls for i in ins)):
            idx = [j for j, i in enumerate(ins) if i.cls == cls]
            part = cr.run_inputs(build, [ins[j] for j in idx], jobs=8, timeout=300, hooks=hooks, vlimit_kb=VLIMIT_KB["mutant"],
                                 tag="c07again", stack_kb=STACK_KB.get(cls))
            for j, r2 in zip(idx, part):
                runs2[j] = r2
        vs2, _ = cr.validate(runs2, chunk=200, parallel=4)
        flaky = 0
        gone = set()
        for (r, v, k), r2, v2 in zip(doubt, runs2, vs2):
            if v2.ok:
                flaky += 1
                gone.add(id(r))
        keyed = [x for x in keyed if id(x[0]) not in gone]
        stats["rejections_not_repeated_with_10x_time_bound"] = stats.get("rejections_not_repeated_with_10x_time_bound", 0) + flaky
    hang_groups = {}
    nrep = 0
    by_kind = stats.setdefault("rejections_by_kind", {})
    dump = os.environ.get("C07_DUMP")        # development aid: the first text of every distinct key goes to this directory
    for r, v, key in keyed:
        inp = r.inp
        kind = key["kind"]
        if dump:
            os.makedirs(dump, exist_ok=True)
            import hashlib
            kx = json.dumps({k: x for k, x in key.items() if k not in ("class", "mutation", "cert")}, sort_keys=True)
            fn = os.path.join(dump, hashlib.sha1(kx.encode()).hexdigest()[:10])
            if not os.path.exists(fn + ".key"):
                open(fn + ".key", "w").write(kx + "\n" + " ".join(r.cmd) + "\n")
                open(fn + ".as", "wb").write(inp.data)
        by_kind[kind] = by_kind.get(kind, 0) + 1
        kk = json.dumps({k: x for k, x in key.items() if k != "class"}, sort_keys=True)
        stats.setdefault("rejection_keys", {})[kk] = stats.setdefault("rejection_keys", {}).get(kk, 0) + 1
        if kind == "hang":
            hang_groups.setdefault(json.dumps(key, sort_keys=True), []).append(r)
        what = "%s on %s input %s: exit %s, %d error line(s)%s -- TLC: %s %s" % (
            kind, inp.cls, (repr(inp.data[:60]) + ("..." if len(inp.data) > 60 else "")), r.rc, r.errl,
            (", site %s" % key["site"]) if "site" in key else "", v.how, v.name)
        if not known(key):
            nrep += 1
            if nrep > MAX_REPORT:
                stats["violations_not_reported"] = stats.get("violations_not_reported", 0) + 1
                continue
        chk.violation(what, {"input_class": inp.cls, "input_name": inp.name, "source_bytes": list(inp.data[:4000]),
                             "source_len": len(inp.data), "files": {k: list(x) for k, x in inp.files.items()},
                             "command": r.cmd, "certificates": inp.cert, "certificates_as_read": inp.asread,
                             "features": inp.feat, "tlc": v.tlc_text, "exit": r.rc, "error_lines": r.errl,
                             "fault": r.label.get("fault"), "timeout": r.timeout,
                             "output_tail": r.stdout[-1500:].decode(errors="replace"), "events_tail": r.events[-8:]}, key=key)
    # where a hang loops: sampled under gdb for one member of a few groups (information only)
    hs = stats.setdefault("hang_sites", {})
    for k, rs in list(hang_groups.items())[:3]:
        if not asan and tier != "quick":
            hs[k] = cr.crash_site(build, rs[0].inp, hang_after=3, timeout=40)


def run(chk, tier):
    t0 = time.time()
    build = vlib.vbuild()
    hooks = dt.hooks_present(build)
    rng = random.Random(chk.seed)
    stats = {}
    d = ci.spec_dir()
    jobs = vlib.NCPU
    chk.rule = ("case = one source text: (a) every string of <= N character classes x representative bytes (quick N=4 variant 1 "
                "and N=3 variants 2,3; thorough N=5 variant 1, N=4 variants 2,3), (b) every mutation that Mutants.tla enumerates "
                "(del/dup/swap/ins token, del/ins bracket, indent change, delete quote, insert NUL/0xE9/0x80/_/0x01/quote, cut) "
                "at the sampled positions of each valid text, every directive soup of <= 3 (quick) / 4 (thorough) lines, the "
                "size-stress family, every macro program that Macros.tla exports (1 definition: all shapes of level 3; 2-4 "
                "definitions: strided; alone with -Fap, every 5th in a typed context, every 9th certified one inside a valid "
                "text), every application that Calls.tla exports (signature <= 4 parameters x defaults x positional/keyword "
                "split x overload context x one defect; strided in the quick tier), (c) seeded random texts; each compiled "
                "once and its trace judged by TLC")
    chk.exhaustive = True
    chk.assumptions += [
        "time bound per run: %s seconds by input class; address-space bound %s KB (a run that exceeds either is a Hang / fault)" % (TIME_BOUND, VLIMIT_KB),
        "'an error was printed' = an occurrence of '#n (Error)' / '#n (Fatal Error)' in the output after removing echoed source lines",
        "fault = death by signal, or 'Program fault' / 'Unexpected signal' / 'Bug:' / 'Assertion failed' / 'Storage allocation error' / sanitizer report in the output",
        "invalidity is certified only by: an error token of Scan.tla, Linear!CheckBalance, unequal bracket counts, and (directive soups) "
        "unbalanced #if/#else/#endif, end of file in #if, an active unterminated string / missing include / #error",
        "keys of findings: crash sites come from gdb on 3 (quick) / 40 (thorough) evenly spaced members of every group of rejected runs "
        "with the same kind, phase, TLC-derived features and output tail (all members if these disagree); a hang is keyed by the phase in progress",
        "thorough: class (a) up to length 4 also runs under a sanitizer build (-fsanitize=address links but cannot run: the conservative "
        "collector scans stack and data at the first allocation; -fsanitize=bounds is used instead)",
        "command lines are valid and fixed per class (-Fao; -Mno-emax for the many-errors texts; foamlib paths for corpus texts)",
        "macro programs: invalidity is certified by Macros.tla only (expansion that needs its own result, wrong number of macro "
        "arguments, unreduced macro function; in a typed context also a macro name used outside the reach of its definition, "
        "which the rendering gives no other meaning); nothing is certified when a visible name is defined twice; stack bound %s KB" % STACK_KB["macro"],
        "call shapes: invalidity is certified by Calls.tla only (no visible signature accepts the application and returns what the "
        "context receives); arguments are variables of exactly one type, so no literal overloading; keyword-before-positional "
        "alone is not certified (the compiler binds positional arguments by their place)",
    ]

    only = set(x for x in os.environ.get("C07_ONLY", "").split(",") if x)      # development aid: a subset of the families
    # ---------------- inputs (TLC)
    if tier == "quick":
        enum_parts = [(4, [1]), (3, [2, 3])]
        stride, cstride, maxq, dirlen, nrandom = 17, 500, 1, 3, 1500
    else:
        enum_parts = [(5, [1]), (4, [2, 3])]
        stride, cstride, maxq, dirlen, nrandom = 5, 300, 3, 4, 30000
    if only and "enum" not in only:
        enum_parts = [(2, [1, 2])]
    # The TLC runs that produce the families start together; every family is compiled and judged as soon as its
    # inputs exist (the mutants, whose TLC run is the longest, come last).
    t = time.time()
    ex = ThreadPoolExecutor(max_workers=6)
    texts = ci.valid_texts(tier, chk.seed)
    mseed = 0 if tier == "quick" else chk.seed % 1000
    mtexts = texts if not only or "mutant" in only else texts[:2]        # (development run without the mutants: two texts)
    # (one single-threaded TLC per shard; the bound is generous because a shared machine slows each of them down)
    f_mut = ex.submit(ci.mutant_family, chk, d, mtexts, stride, cstride, mseed, maxq, 9 if tier == "quick" else 16,
                      2700 if tier == "quick" else 7200)
    f_enum = ex.submit(ci.enum_family, chk, d, enum_parts, 10 if tier == "quick" else 14)
    f_dirs = ex.submit(ci.dirs_family, chk, d, dirlen)
    f_stress = ex.submit(ci.stress_family, chk, d)
    f_rand = ex.submit(ci.random_family, chk, d, rng, nrandom, 3 if tier == "quick" else 12)
    f_mac = ex.submit(cmac.family, chk, d, tier, chk.seed, texts)
    f_call = ex.submit(ccall.family, chk, d, tier, chk.seed)
    known_inputs = [cr.Input("known", k, t_, args=a_) for k, (t_, a_) in sorted(FINDING_TEXTS.items())]
    f_known = ex.submit(ci.rejudge, chk, d, known_inputs, 2)
    stats["inputs"] = {"valid_texts": len(texts)}

    def pick(name, ins, n):
        if only and name not in only:
            ins = ins[:n]
        stats["inputs"][name] = len(ins)
        return ins

    rejected = []
    allruns = []

    def go(label, ins):
        rej, runs = run_family(chk, build, ins, stats, label, jobs, hooks)
        rejected.extend(rej)
        allruns.extend(runs[1:3])
        return runs
    kj = f_known.result()        # certificates and features from TLC, as for every other text
    for i, inp in enumerate(known_inputs):
        inp.cert, inp.asread, inp.feat = kj[i]["c"], kj[i]["r"], kj[i]["f"]
    go("known", known_inputs)
    enum_inputs, nenum = f_enum.result()
    stats["inputs"]["enum_strings_x_variants"] = nenum
    stats["inputs"]["tlc_wall_enum_s"] = round(time.time() - t, 1)
    enum_inputs = pick("enum", enum_inputs, 200)
    go("enum", enum_inputs)
    go("dirs", pick("dirs", f_dirs.result(), 20))
    go("stress", pick("stress", f_stress.result(), 2))
    go("random", pick("random", f_rand.result(), 20))
    go("macro", pick("macro", f_mac.result(), 40))
    # the applications without defect are the controls of the rendering: they must compile
    call_inputs = pick("call", f_call.result(), 40)
    call_runs = go("call", call_inputs)
    bad_controls = [r for r in call_runs if r.inp.label.get("control") and (r.rc != 0 or r.timeout)]
    stats["call_controls"] = {"run": sum(1 for r in call_runs if r.inp.label.get("control")), "failed": len(bad_controls)}
    if len(bad_controls) > max(3, stats["call_controls"]["run"] // 10):
        raise vlib.MachineryError("Calls: %d of %d applications that the model accepts do not compile, first:\n%s\n%s" % (
            len(bad_controls), stats["call_controls"]["run"], bad_controls[0].inp.data.decode(errors="replace"),
            bad_controls[0].stdout[-600:].decode(errors="replace")))
    mut_inputs = f_mut.result()
    stats["inputs"]["tlc_wall_all_s"] = round(time.time() - t, 1)
    ex.shutdown()
    if only:
        chk.assumptions.append("C07_ONLY=%s: development run over a subset of the families" % ",".join(sorted(only)))
    # the controls: the rebuilt text of an unmutated token list must still compile
    controls = [i for i in mut_inputs if i.name[1] == "none"]
    cruns = go("mutant controls", controls)
    bad_texts = set(r.inp.name[0] for r in cruns if r.rc != 0 or r.timeout)
    stats["valid_texts_dropped_control_failed"] = sorted(bad_texts)
    if len(bad_texts) > len(controls) // 2:
        raise vlib.MachineryError("more than half of the valid texts do not survive Unscan: %s" % sorted(bad_texts))
    mut_inputs = [i for i in mut_inputs if i.name[0] not in bad_texts and i.name[1] != "none"]
    if only and "mutant" not in only:
        mut_inputs = mut_inputs[:20]
    stats["inputs"]["mutant"] = len(mut_inputs)
    go("mutant", mut_inputs)
    report(chk, build, rejected, stats, tier=tier, hooks=hooks)

    # ---------------- thorough: token-level certificates re-derived from the rebuilt bytes; class (a) under ASan
    if tier != "quick":
        cert_muts = [i for i in mut_inputs if i.label.get("level") == "token" and i.cert]
        cert_muts = cert_muts[::max(1, len(cert_muts) // 300)]        # a full scan of a 1-2 KB text costs TLC about a second
        again = ci.rejudge(chk, d, cert_muts, shards=12)
        disagree = [i for k, i in enumerate(cert_muts) if not set(i.cert) <= set(again[k]["c"])]
        stats["token_certificates_rechecked"] = len(cert_muts)
        if disagree:
            raise vlib.MachineryError("Mutants!Unscan: %d token-level certificates are not confirmed by scanning the rebuilt text, "
                                      "first: %r" % (len(disagree), disagree[0].data[:300]))
        # class (a) under a sanitizer build.  AddressSanitizer first; the compiler's conservative collector scans the
        # stack and the data segments at the first allocation, which ASan cannot live with, so a probe on a valid text
        # decides; the fall-back is -fsanitize=bounds (array indices such as keyIx[ch] become observable).
        san, san_env = None, None
        probe = cr.Input("enum", "probe", b"-- nothing\n")
        for tag, flags, env in (("asan", ("-fsanitize=address", "-fno-omit-frame-pointer"),
                                 {"ASAN_OPTIONS": "detect_leaks=0:abort_on_error=0:exitcode=99"}),
                                ("ubsan", ("-fsanitize=bounds", "-fno-omit-frame-pointer"), {"UBSAN_OPTIONS": "print_stacktrace=0"})):
            try:
                b2 = vlib.vbuild(extra_cflags=flags, tag=tag)
            except Exception as e:
                stats[tag + "_build"] = "failed: %s" % str(e)[-300:]
                continue
            pr = cr.run_inputs(b2, [probe], jobs=1, timeout=30, hooks=hooks, env_extra=env, vlimit_kb=None, tag="c07probe")[0]
            if pr.label.get("fault") or pr.rc != 0:
                stats[tag + "_build"] = "links, but unusable: the probe on a valid text reports %s" % (_bug_text(pr.stdout) or pr.label.get("fault") or pr.rc)
                continue
            stats[tag + "_build"] = "ok"
            san, san_env = b2, env
            break
        if san:
            small = [i for i in enum_inputs if len(i.data) <= 3 or (len(i.data) == 4 and i.kinds == ["ao"])]
            rej, runs = run_family(chk, san, small, stats, "enum under sanitizer", jobs, hooks, env_extra=san_env)
            report(chk, san, rej, stats, tier=tier, asan=True, hooks=hooks)
        else:
            chk.assumptions.append("no sanitizer build of the compiler was usable; class (a) ran without it")

    for r in allruns:
        chk.sample({"class": r.inp.cls, "text": repr(r.inp.data[:120]), "certificates": r.inp.cert, "exit": r.rc,
                    "error_lines": r.errl, "events": len(r.events)}, cap=12)
    stats["hooks_missing"] = not hooks
    stats["wall_s"] = round(time.time() - t0, 1)
    if not hooks:
        chk.assumptions.append("HOOKS MISSING: the sources carry no H3 events; runs were judged on the harness observations only")
    chk.extra["c07"] = stats


def replay(d):
    """bin/verif replay C07 <file>: run the recorded text again through the compiler built from the working tree and
    let TLC judge the run; exit 1 if it is still rejected."""
    det = d.get("detail") or {}
    if not isinstance(det, dict) or "source_bytes" not in det or det.get("source_len", 0) > len(det["source_bytes"]):
        print("nothing to re-run in this record")
        return 0
    build = vlib.vbuild()
    args = [a for a in det.get("command", []) if a.startswith(("-M", "-I/", "-Y/"))
            and a not in vlib.ALDOR_BASE_ARGS]
    inp = cr.Input(det.get("input_class", "enum"), det.get("input_name"), bytes(det["source_bytes"]), det.get("certificates", []),
                   det.get("certificates_as_read"), det.get("features", []), args=args,
                   files={k: bytes(v) for k, v in (det.get("files") or {}).items()},
                   kinds=tuple(a[2:] for a in det.get("command", []) if a.startswith("-F")) or ("ao",))
    runs = cr.run_inputs(build, [inp], jobs=1, timeout=TIME_BOUND.get(inp.cls, 30), hooks=dt.hooks_present(build),
                         stack_kb=STACK_KB.get(inp.cls))
    vs, _ = cr.validate(runs, chunk=10, parallel=1)
    print("exit %s, %d error line(s), fault %r, timeout %s -> TLC: %s" % (runs[0].rc, runs[0].errl, runs[0].label.get("fault"),
                                                                      runs[0].timeout, vs[0]))
    print(runs[0].stdout[-1500:].decode(errors="replace"))
    return 0 if vs[0].ok else 1


def selftest():
    """Corrupt single fields of recorded, accepted runs and show that TLC rejects each variant.
    Run:  cd /verif && python3 -c "import sys; sys.path[:0]=['lib','.']; import checks.c07 as m; m.selftest()" """
    import copy
    build = vlib.vbuild()
    hooks = dt.hooks_present(build)
    base = cr.run_inputs(build, [cr.Input("enum", "valid", b"-- nothing\n"), cr.Input("enum", "invalid", b'"abc\n', ["errtok"])],
                         jobs=2, timeout=10, hooks=hooks)

    def variant(name, which, fn):
        r = copy.deepcopy(base[which])
        fn(r.events)
        r.label["variant"] = name
        return r

    def field(evname, key, val):
        def f(evs):
            [e for e in evs if e["ev"] == evname][-1][key] = val
        return f

    def drop(evname):
        def f(evs):
            evs.remove([e for e in evs if e["ev"] == evname][-1])
        return f
    vs = [variant("valid text, unchanged", 0, lambda evs: None),
          variant("invalid text, unchanged", 1, lambda evs: None),
          variant("valid: Observed exit 0 -> 1", 0, field("Observed", "exit", 1)),
          variant("valid: Observed error lines 0 -> 2", 0, field("Observed", "errl", 2)),
          variant("valid: Observed fault '' -> 'bug'", 0, field("Observed", "fault", "bug")),
          variant("valid: Observed timeout", 0, field("Observed", "timeout", True)),
          variant("valid: Observed signal 11", 0, field("Observed", "signal", 11)),
          variant("valid: certificate added (text certified invalid, nothing printed)", 0, field("Observed", "cert", ["errtok"])),
          variant("invalid: Observed exit 1 -> 0", 1, field("Observed", "exit", 0)),
          variant("invalid: Observed error lines -> 0", 1, field("Observed", "errl", 0)),
          variant("invalid: Observed fault 'program-fault'", 1, field("Observed", "fault", "program-fault"))]
    if hooks:
        vs += [variant("valid: Exit event dropped", 0, drop("Exit")),
               variant("valid: Exit status 0 -> 1", 0, field("Exit", "status", 1)),
               variant("invalid: Exit status 1 -> 0", 1, field("Exit", "status", 0)),
               variant("invalid: last PhEnd dropped", 1, drop("PhEnd")),
               variant("valid: Msg error inserted", 0, lambda evs: evs.insert(3, {"ev": "Msg", "kind": "error", "nerr": 1}))]
    verdicts, st = cr.validate(vs, chunk=len(vs), parallel=1)
    ok = True
    for r, v in zip(vs, verdicts):
        print("%-72s %s" % (r.label["variant"], v))
        ok = ok and (v.ok == r.label["variant"].endswith("unchanged"))
    vlib.cleanup_scratch()
    print("selftest", "PASSED" if ok else "FAILED")
    return ok


SELFTEST_NOTES = """
Binding demonstration (2026-10-04).  Mutations applied one at a time in a scratch `git worktree` of /repo (/tmp/wt-c07mut, removed
afterwards), compiler built by vlib.vbuild via VERIF_SRC, check run as `C07_ONLY=dirs bin/verif check C07 --tier quick`, i.e. a strict
subset of the quick tier (class strings of length <= 2 in variants 1,2; all 2 955 directive soups; the known-finding texts; 20 texts of
each other family) -- what this subset catches the quick tier catches.  The machine was shared with 14 other builders (load 100-300).

 M1 axlcomp.c:compFilesLoop   `return totErrors` -> `return 0`                       CAUGHT: 20+ VIOLATION lines, e.g.
      "protocol on enum input b'1=': exit 0, 1 error line(s) -- TLC: stuck NotABehaviour" (Exit(0) after a printed error is no
      step of Driver) and dishonest-exit (HonestExit) on the blind observations
 M2 scan.c:scanTokenCases     a non-printable byte is skipped instead of scanError()  CAUGHT: 8 x "no-diagnostic on enum input
      b'\\xe9' ...: exit 0, 0 error line(s) -- TLC: invariant InvalidDiagnosed" (Scan.tla certifies an error token)
 M3 scan.c:scanString         unterminated string returns tokString, not the error token
      NOT caught by the first version (every text was compiled with -Fao: without a library `"a` then fails in tinfer with
      "no meaning for string literal", which is a diagnostic).  This changed the check: class-string variants 2,3 and the directive
      soups are now compiled with -Fap (syntactic phases only).  Re-run: CAUGHT (see the line for M3 below).
 M4 include.c:inclLine        no "End of file in #if" error                           CAUGHT: 20+ x "no-diagnostic on dirs input
      b'#assert t\\n#if t\\n': exit 0 ... InvalidDiagnosed" (Directives.tla certifies if-balance)
 M5 parseby.c:yyerrorfn       ALDOR_E_SyntaxNoRecovery reported as a warning           CAUGHT: 84 x "fault:program-fault ... site
      abnorm.c:abnorm" (the driver goes on with the failed parse; Total)
 M3 (re-run after the -Fap change)                                                     CAUGHT: 20+ x "no-diagnostic on enum input
      b'r"' / b'"7' / b'".' ...: exit 0, 0 error line(s) -- TLC: invariant InvalidDiagnosed"

Inverse experiment: with hooks/fix-C07-{lone-hash-eof-hang,keyix-negative-index,nul-byte-cuts-line,exit-status-wrap,quit-in-batch}.diff
applied (worktree /tmp/wt-c07fix, VERIF_SRC) the five scanner/driver findings disappear from the same run: no hang, no keyTag fault,
no NUL no-diagnostic, 256 errors exit 255, #quit only warns; the KNOWN-FINDING lines that remain are the five parser/type-checker
crash sites reached by mutants (abDefineeId, bputTPoss, ptrlistFreeDeeplyTo, foamAuditBadRef, gen0PatchEEltFormats).
That run also exposed a harness defect (exit status 255 read as "signal 127"), fixed: a status 129..159 counts as a signal only if
the process did not emit its Exit event.

Recorded-event corruption (checks.c07.selftest(): two accepted runs, `-- nothing` and `"abc`, one field changed each; all rejected):
 Observed exit 0->1 / error lines 0->2            invariant HonestExit
 Observed fault ''->'bug', timeout, signal 11     stuck (no action matches: Fault / Hang)
 Observed cert [] -> [errtok] on the valid run    invariant InvalidDiagnosed
 invalid run: exit 1->0                           invariants CompleteOnSuccess + HonestExit
 invalid run: error lines -> 0                    invariants HonestExit + InvalidDiagnosed
 Exit event dropped / Exit status changed         stuck at Observed / at Exit
 last PhEnd dropped                               stuck at FileEnd
 Msg error inserted before the output             stuck at OutOpen(ao) (code output after an error)

Unchanged tree: quick exits 0 ("held", 13 KNOWN-FINDING lines, 40 776 runs judged) with VERIF_SEED default; the seed reaches only
the random family, which was also run with VERIF_SEED=1 and 777 (held).  Wall 246-297 s at load average 40 on the shared 16 cores
(1 220-1 490 CPU-seconds, of which about 350 are the 392 texts that trigger the lone-`#` loop, each running until its 64 MB
address-space bound); on an idle machine that is about 120-150 s.  Thorough: 638 103 runs judged (462 220 class-string texts, 41 371
directive soups, 13 494 mutants of 36 valid texts, 30 000 random texts, 90 927 texts again under -fsanitize=bounds), 48 min at load 45.

Strengthening (2026-10-04, evening): two input classes added, both judged by the same TraceTotal validation.
 (b') class "macro", spec/Macros.tla: a term calculus of source macros (definitions name(params) ==> body, one use, scopes top /
      where / add / function body, visibility = the definitions in front of the use in its scope).  TLC enumerates the programs
      (1 definition: all 1 168 shapes of level 3 x {all visible, something hidden}; 2 / 3 / 4 definitions strided), runs the
      leftmost-outermost expansion with an active set and certifies mac-circular / mac-argc / mac-improper (and, in a typed
      context, no-meaning); the law GraphLaw (first-order programs: circular <=> cycle of the definition graph reachable from
      the use) is asserted on every exported program.  Rendered in the spellings `macro f(x) == b`, `f(x) ==> b`,
      `f ==> (macro (x) +-> b)`, `macro { .. }`, alone (-Fap), in a typed axllib context (-Fao) and appended to valid texts.
 (b'') class "call", spec/Calls.tla: signatures of <= 4 parameters (trailing defaults), applications with positional / keyword /
      omitted arguments, two-valued arguments and results, overload contexts none / arity / types / ret, one defect each
      (15 kinds); certificate no-signature; 55 156 applications in the full space (2 type patterns), laws BaseValid, AlwaysBad,
      DropLaw, Trailing checked on all of them.
 Reviewers' source changes (bin/seedtest, quick tier against a scratch worktree with the patch):
   C07-1 scan.c:scanString    open string at end of input without newline loops      CAUGHT (as before): 20+ x fault:out-of-memory
                                                                                     on enum inputs `a"`, `aa"`, ...
   C07-2 macex.c:macId        circularity guard compares a copy                      MISSED before; CAUGHT now: fault:signal on
                              macro inputs (mutual / direct / macro-function circles), site recursion:macex.c:macEx
   C07-3 terror.c:guessOpMeanings  argf(ab, parN) instead of argN                    MISSED before; CAUGHT now: 19 x fault:program-
                              fault + 1 x fault:out-of-memory on call inputs (defect type-kw with an omitted defaulted
                              parameter in front), site comsg.c:comsgVDo
 Own mutations (worktree, C07_ONLY=macro,call = a subset of the quick tier):
   MX1 macex.c:macApply       `n != abArgc(params)` -> `n > abArgc(params)` (too few macro arguments accepted)
                              CAUGHT: 1 184 x fault:program-fault (site absyn.c:abCopy) + 357 x fault:out-of-memory + 2 x no-diagnostic
                              on macro inputs certified mac-argc
   MX3 tfsat.c:tfSatAsMulti   `usedc < argc` -> `usedc > argc` (superfluous / unknown keyword arguments accepted)
                              CAUGHT: 163 x "no-diagnostic on call input ...: exit 0, 0 error line(s) -- TLC: invariant
                              InvalidDiagnosed" (defects kw-unknown, kw-twice, extra-pos, kw-dup-pos)
 New findings on the unchanged tree: the macro-function stack overflow (`macro f(x) == x(x); f(f)`; candidate patch
 hooks/fix-C07-macro-function-depth.diff) and the segmentation violation in terror.c:terrorAssignOrSetBang for
 `(p: SingleInteger, q: String) := f()` with a two-valued f (hooks/fix-C07-multi-assign-rhs-parts.diff); with both
 patches applied (worktree) the two texts give ordinary errors.
 Model corrections of this round (not findings): `f ==> macro (x) +-> b` needs parentheses in the grammar; a name defined
 twice gets no certificate (the compiler expands the second body while the first definition is in force -- a third reading
 besides "first wins" / "last wins"); a keyword argument in front of a positional one is accepted by the compiler whenever the
 positional argument fits the parameter at its own place, so the guide's order rule alone certifies nothing; a non-terminating
 expansion needs ~10 s CPU to exhaust an 8 MB stack (quadratic) but 0.1 s for 1 MB: class "macro" runs with `ulimit -s 1024`,
 and a crash site 40 frames deep with one function >= 6 times is keyed "recursion:<function>".
 Unchanged tree after the extension: quick held with VERIF_SEED default, 1, 2, 3 (47 724 runs judged, of which 5 125 macro and
 1 822 call texts; 10 KNOWN-FINDING lines), 253 s wall at load 55 (the two new classes are compiled and judged while the TLC
 run of Mutants, which ends last, is still going; they cost about 60 s of wall under that load, 25 s on an idle machine).
 Thorough (new classes only, C07_ONLY=macro,call): 77 180 macro + 31 477 call texts judged, 1 939 call controls all compile,
 only the two findings above rejected; 24 min at load 65.  A finding of the new classes is keyed by the TLC-derived feature
 param-applied (macro) / by the crash site (call).

Model corrections made during development (not findings):
 * a corpus text with an `#if 0 ... #endif` region: deleting a bracket inside the skipped region was certified "brackets".  Scan.tla
   does not transcribe the includer's conditionals, so SrcText!Faithful now withholds certificates from texts with #if/#else/#endif
   lines (the directive soups, where Directives.tla models them, are the place where those are certified).
 * Scan.tla takes a system-command line literally; scan.c:scanSysCommand processes escapes there (`#_<newline>"` continues the
   command onto the next line).  SrcText!Faithful now withholds every certificate from a text with an escape on a `#` line.
 * `-continue` prints the whole behaviour for each invariant violation; with ~10 % of 35 000 runs violating InvalidDiagnosed a
   batch took minutes.  The Observed step now evaluates the invariants itself in the successor state and prints JUDGED.
 * error lines: the compiler glues osDisplayMessage text in front of '#1 (Error) Program fault', so the pattern is not anchored at
   the line start; echoed source lines are removed first so that the text of an input cannot fake an error line.
"""
