"""C18 -- A successful exit means every requested output was written.

Decided by TLC twice over:
 (A) spec/Driver.tla is model checked (CompleteOnSuccess, HonestExit, FailureSurfaces, ... over
     subsets of the nine output kinds x single/double I/O faults x error/fatal anywhere x 1-2 files),
     together with two expected refutations: the driver *as written* (ChecksIo = FALSE) violates
     CompleteOnSuccess, and a faulted run ending in a non-zero exit exists (non-vacuity);
 (C) real compiler runs under injected I/O faults (gen/c18_faults.py) are recorded through hook H3
     plus the harness's observation of the outcome and validated as behaviours of Driver
     (spec/TraceDriver.tla) with every invariant evaluated on the observed outcome.
"""
import json
import os
import random
import threading
import time
from concurrent.futures import ThreadPoolExecutor

import vlib
import sys
sys.path.insert(0, os.path.join(vlib.VERIF, "gen"))
import driver_trace as dt      # noqa: E402
import c18_faults as cf        # noqa: E402

META = {
    "title": "A successful exit means every requested output was written",
    "level": "model_checking",
    "technique": "TLA+ model of the compiler driver with an I/O-fault environment, checked with TLC; "
                 "trace validation of real compiler runs under injected faults (symlink to /dev/full, "
                 "directory targets, non-directory parents, removed cwd, strace write/close error injection)",
    "design_ref": "DESIGN.md §3.9, §5 C18, Appendix A/D",
    "level_text": "TLC explores every reachable state of Driver.tla under the stated bounds; every real run is "
                  "accepted or rejected by TLC as a behaviour of that module",
    "level_note": "bounded: <= 2 files, <= 2 faults per run in the model; the corpus sample and the fault matrix are finite; the common "
                  "header of a split C output (-Csmax) is the tenth output kind \"h\" of Driver.tla and of the fault matrix",
}

MODEL_ACTIONS = ["StartFile", "EndFile", "Phase", "PhEnd", "Msg", "IoFault", "OpenOut", "WriteOut", "CloseOut",
                 "Cleanup", "Exit"]


def _model_runs(chk, tier, results):
    """(A): the exhaustive configurations.  Runs in a thread next to the compiler runs."""
    cfgs = [("Driver", dict(coverage=(tier != "quick"), workers=6), None),
            ("DriverLayer", dict(coverage=True, workers=3), None),
            ("DriverLive", dict(workers=2), None),
            ("DriverLayerMP", dict(workers=1), None),
            ("DriverSplit", dict(workers=4), None),        # ... with the common header of a split C output as an output kind
            ("DriverAsWritten", dict(workers=1), "CompleteOnSuccess"),
            ("DriverWitness", dict(workers=1), "NeverFailsAfterFault")]
    if tier != "quick":
        cfgs += [("DriverFull", dict(workers=8, timeout=1500), None),
                 ("DriverTwo", dict(workers=6, timeout=1500), None)]

    def one(c):
        name, kw, expect = c
        kw = dict(kw)
        kw.setdefault("timeout", 600)
        return name, expect, vlib.tlc("Driver", name, seed=chk.seed % 100000, **kw)
    with ThreadPoolExecutor(max_workers=8 if tier != "quick" else 6) as ex:
        for name, expect, r in ex.map(one, cfgs):
            results.append((name, expect, r))


def run(chk, tier):
    t0 = time.time()
    b = vlib.vbuild()
    hooks = dt.hooks_present(b)
    rng = random.Random(chk.seed)
    chk.rule = ("a case = (programs on the command line, requested -F kinds, {(file, kind): fault source}); distinct by that "
                "triple; every case is executed against the compiler built from the working tree and its event trace "
                "(hook H3 + observed outcome) is judged by TLC against spec/Driver.tla")
    chk.exhaustive = False
    chk.assumptions += [
        "an output is 'complete' iff it is a regular file byte-equal to the output of the fault-free run of the same command",
        "'an error was printed' = a line containing (Error) or (Fatal Error) on stdout/stderr",
        "strace -P <target> -e inject=... fails exactly the write/close system calls on the target; /dev/full makes every flush fail with ENOSPC",
        "the model bounds faults per run to 2 and files per command line to 2",
    ]
    model_results = []
    mt = threading.Thread(target=_model_runs, args=(chk, tier, model_results))
    mt.start()

    # ---------------- (C) real runs
    extra = cf.add_repo_programs(b, rng, 12) if tier != "quick" else []
    cases = cf.plan(tier, rng, extra)
    root = vlib.scratch("c18")
    tracedir = vlib.scratch("c18t")
    refcache = {}
    reflock = threading.Lock()
    refruns = []

    def get_ref(case, idx):
        rc = cf.reference_case(case)
        k = rc.key()
        with reflock:
            ent = refcache.get(k)
            if ent is None:
                ent = refcache[k] = {"lock": threading.Lock(), "run": None}
        with ent["lock"]:
            if ent["run"] is None:
                r = cf.execute(b, rc, root, 1000000 + idx, None, hooks, tracedir)
                # a fault-free run must compile cleanly, otherwise the case says nothing about I/O faults;
                # whether all its outputs are where they were requested is for TLC to judge like any other run
                if r.rc != 0 or r.errl or r.signal or r.timeout:
                    raise vlib.MachineryError("fault-free reference run failed: %s rc=%s\n%s" %
                                              (rc.describe(), r.rc, (r.stdout + r.stderr).decode(errors="replace")[-1500:]))
                ent["run"] = r
                with reflock:
                    refruns.append(r)
        return ent["run"]

    def do(ic):
        i, case = ic
        ref = get_ref(case, i)
        return cf.execute(b, case, root, i, ref.contents, hooks, tracedir)

    with ThreadPoolExecutor(max_workers=max(4, vlib.NCPU - 4)) as ex:
        runs = list(ex.map(do, enumerate(cases)))
    t_runs = time.time() - t0
    allruns = refruns + runs
    verdicts, stats = dt.validate(allruns, chunk=48 if tier == "quick" else 64, parallel=8, timeout=300 if tier == "quick" else 900)
    # a rejection counts only if it repeats (guards against flakiness of the harness itself)
    again = [(i, r) for i, (r, v) in enumerate(zip(allruns, verdicts)) if not v.ok]
    if again:
        def redo(ir):
            i, r = ir
            ref = get_ref(r.case, 2000000 + i) if r.case.tag != "ref" else None
            return cf.execute(b, r.case, root, 3000000 + i, ref.contents if ref else None, hooks, tracedir)
        with ThreadPoolExecutor(max_workers=max(4, vlib.NCPU - 4)) as ex:
            reruns = list(ex.map(redo, again))
        v2, st2 = dt.validate(reruns, chunk=48 if tier == "quick" else 64, parallel=8, timeout=300 if tier == "quick" else 900)
        for k in stats:
            stats[k] += st2[k]
        flaky = 0
        for (i, r), r2, w in zip(again, reruns, v2):
            if w.ok or (w.how, w.name) != (verdicts[i].how, verdicts[i].name):
                flaky += 1
                verdicts[i] = dt.Verdict(True)
        chk.extra["rejections_not_repeated"] = flaky
    mt.join()

    # ---------------- (A) results
    for name, expect, r in model_results:
        chk.add_tlc(name, r)
        if expect:
            if r.violated != expect:
                raise vlib.MachineryError("%s: TLC was expected to refute %s but reported %r" % (name, expect, r.violated))
        elif r.violated:
            chk.violation("design model %s violates %s" % (name, r.violated), r.trace_text, key={"model": name, "inv": r.violated})
        if r.coverage:
            dead = [a for a in MODEL_ACTIONS if r.coverage.get(a, (0, 0))[0] == 0]
            if dead:
                raise vlib.MachineryError("%s.cfg: actions never taken (vacuous model): %s" % (name, dead))
    chk.extra["expected_refutations"] = {
        "DriverAsWritten": "CompleteOnSuccess is violated when the results of fclose/fflush are ignored (the pinned code)",
        "DriverWitness": "a run with an injected fault that ends in a non-zero exit exists"}

    # ---------------- verdicts of the real runs
    chk.traces += len(allruns)
    chk.states += stats["states"]
    chk.transitions += stats["generated"]
    chk.tlc_runs.append({"name": "TraceDriver (all batches)", "generated": stats["generated"], "distinct": stats["states"],
                         "wall_s": round(stats["wall"], 2), "processes": stats["tlc_runs"]})
    nrej = 0
    reached = 0
    by_class = {}
    for r, v in zip(allruns, verdicts):
        case = r.case
        chk.case(json.dumps(case.describe(), sort_keys=True), nontrivial=True)
        hit = bool(r.failed_ops) or any(e.get("ev") == "OutClose" and (e.get("rc") or e.get("werr")) for e in r.events) \
            or any(e.get("ev") == "OutOpen" and not e.get("ok") for e in r.events) or any(o["st"] != "complete" for o in r.obs)
        reached += 1 if hit else 0
        if len(chk.samples) < 6 and (case.faults and (len(chk.samples) % 2 == 0) == v.ok):
            chk.sample({"case": case.describe(), "exit": r.rc, "error_lines": r.errl,
                        "outputs": {"%d:%s" % (o["file"], o["kind"]): o["st"] for o in r.obs},
                        "events": len(r.events), "tlc": "accepted" if v.ok else "%s %s" % (v.how, v.name)})
        if v.ok:
            continue
        nrej += 1
        # which faulted output does the rejection belong to
        fk = None
        ev = v.prev if v.how == "stuck" else None
        if ev and ev.get("ev") in ("OutClose", "OutOpen") and (ev.get("file"), ev.get("kind")) in case.faults:
            fk = (ev["file"], ev["kind"])
        if fk is None:
            bad = [(o["file"], o["kind"]) for o in r.obs if o["st"] != "complete" and (o["file"], o["kind"]) in case.faults]
            bad += [(f, k) for (f, k, op) in r.failed_ops]
            cand = [x for x in sorted(case.faults, key=lambda x: (dt.KINDS_ALL.index(x[1]), x[0])) if x in bad] or \
                   sorted(case.faults, key=lambda x: (dt.KINDS_ALL.index(x[1]), x[0]))
            if not cand:        # a fault-free run: the first requested output that is not where it should be
                cand = [(o["file"], o["kind"]) for o in r.obs if o["st"] != "complete"]
            fk = cand[0] if cand else (0, "none")
        src = case.faults.get(fk, "none")
        # -Fc=<fn> together with -Fmain: the generated main file lands on <fn> -- a different mechanism than the
        # missing directory, and the one at work whenever the main file is missing after such a command
        named_c = [x for x, s_ in case.faults.items() if x[1] == "c" and s_ == "nodir"]
        if named_c and "main" in case.kinds and r.rc == 0 and \
                any(o["kind"] == "main" and o["st"] != "complete" for o in r.obs) and \
                (fk[1] in ("c", "main") or all(o["st"] == "complete" for o in r.obs if o["kind"] != "main")):
            fk, src = named_c[0], "nodir+Fmain"
        if r.signal:
            cls = "crash"
        elif r.timeout:
            cls = "hang"
        elif r.rc == 0 and r.errl == 0:
            cls = "exit0-no-diagnostic"
        elif (r.rc == 0) != (r.errl == 0):
            cls = "dishonest-exit"
        else:
            cls = "protocol"
        by_class[cls] = by_class.get(cls, 0) + 1
        key = {"kind": fk[1], "fault": src, "class": cls}
        ost = {"%d:%s" % (o["file"], o["kind"]): o["st"] for o in r.obs}
        what = ("-F%s with fault '%s': exit %s, %d error line(s), outputs %s -- TLC: %s %s" %
                (fk[1], src, r.rc, r.errl, ost, v.how, v.name))
        chk.violation(what, {"case": case.describe(), "command": case.command(), "tlc": v.tlc_text,
                             "rejected_event": v.event, "previous_event": v.prev,
                             "stdout": r.stdout.decode(errors="replace")[-800:], "stderr": r.stderr.decode(errors="replace")[-400:],
                             "events": r.events, "hooks": hooks}, key=key)
    chk.extra.update({
        "hooks_missing": not hooks,
        "runs": len(allruns), "runs_rejected_by_tlc": nrej, "runs_where_the_fault_was_reached": reached,
        "rejections_by_class": by_class, "fault_sources": cf.SINGLE_FAULTS + ["rmcwd"], "corpus_programs": sorted(cf.PROGRAMS),
        "wall_runs_s": round(t_runs, 1),
        "drift_java_output_order_varies_between_identical_runs": sum(1 for r in allruns if r.label.get("java_line_order_differs")),
        "events_outside_model_vocabulary": sorted(set(e.get("ev", "?") for r in allruns for e in r.dropped))})
    if not hooks:
        msg = ("HOOKS MISSING: the compiler sources carry no H3 hook events (hooks/H3-driver.diff not applied); "
               "runs were judged on harness observations only (exit status, error lines, output files, strace injections)")
        print("C18 WARNING: " + msg)
        chk.assumptions.append(msg)
    if reached < len(cases) // 2:
        raise vlib.MachineryError("the injected faults were reached in only %d of %d runs" % (reached, len(cases)))


def selftest():
    """Corrupt single fields of a recorded, accepted trace and show that TLC rejects each variant.
    Run:  cd /verif && python3 -c "import sys; sys.path[:0]=['lib','.']; import checks.c18 as m; m.selftest()" """
    import copy
    b = vlib.vbuild()
    hooks = dt.hooks_present(b)
    root, tdir = vlib.scratch("c18s"), vlib.scratch("c18st")
    base = cf.execute(b, cf.Case(["fact"], ["ao", "fm", "main"], {}, "ref"), root, 0, None, hooks, tdir)

    def variant(name, fn):
        r = copy.deepcopy(base)
        fn(r.events)
        r.label["variant"] = name
        return r

    def field(evname, key, val, nth=0):
        def f(evs):
            [e for e in evs if e["ev"] == evname][nth][key] = val
        return f

    def drop(evname):
        def f(evs):
            evs.remove([e for e in evs if e["ev"] == evname][0])
        return f

    def obs_partial(evs):
        evs[-1]["obs"][0]["st"] = "partial"
    vs = [variant("unchanged", lambda evs: None),
          variant("Observed: one output partial instead of complete", obs_partial),
          variant("Observed: exit 0 -> 3", field("Observed", "exit", 3)),
          variant("Observed: error lines 0 -> 1", field("Observed", "errl", 1)),
          variant("Observed: signal 0 -> 11", field("Observed", "signal", 11))]
    if hooks:
        vs += [variant("OutClose rc 0 -> -1", field("OutClose", "rc", -1)),
               variant("OutClose werr 0 -> 1", field("OutClose", "werr", 1, 1)),
               variant("OutOpen ok true -> false", field("OutOpen", "ok", False)),
               variant("Exit event dropped", drop("Exit")),
               variant("Exit status 0 -> 1", field("Exit", "status", 1)),
               variant("OutClose event dropped", drop("OutClose")),
               variant("Msg error inserted after FileStart", lambda evs: evs.insert(2, {"ev": "Msg", "kind": "error", "nerr": 1}))]
    verdicts, st = dt.validate(vs, chunk=len(vs), parallel=1)
    ok = True
    for r, v in zip(vs, verdicts):
        print("%-55s %s" % (r.label["variant"], v))
        ok = ok and (v.ok == (r.label["variant"] == "unchanged"))
    vlib.cleanup_scratch()
    print("selftest", "PASSED" if ok else "FAILED")
    return ok


SELFTEST_NOTES = """
Binding demonstration (2026-10-04; quick tier; worktrees of /repo under /tmp, removed afterwards).

Source mutations (each compiles; quick check run with VERIF_SRC=<worktree>/aldor/aldor/src):
 M2 util.c:exitFailure      osExit(EXIT_FAILURE) -> osExit(EXIT_SUCCESS)          [hooks applied]
      CAUGHT: 20+ VIOLATION lines, e.g. "-Fai with fault 'dir': exit 0, 1 error line(s) ... TLC: invariant HonestExit"
 M3 axlcomp.c:compFilesLoop return totErrors -> return 0                          [hooks applied]
      CAUGHT: 11 VIOLATION lines, e.g. "-Fao with fault 'devfull': exit 0, 1 error line(s) ... TLC: stuck NotABehaviour"
      (the Exit(0) event after a printed error is not a step of Driver)
 M5 axlcomp.c:compPhaseAbCheck  if (emitIsOutputNeededOrWarn(.., FTYPENO_ABSYN)) -> if (!emit...)   [hooks applied]
      CAUGHT: 20+ VIOLATION lines on fault-free runs: "... '1:ap': 'absent' ... TLC: stuck NotABehaviour"
      (PhEnd/EndFile/Exit(0) with a requested output never emitted)
 M6 axlcomp.c:compFileError  comsgFatal -> comsgWarning + return fopen("/dev/null", mode)   [NO hooks: blind mode]
      CAUGHT: 20+ VIOLATION lines, e.g. "-Fai with fault 'dir': exit 0, 0 error line(s), outputs {'1:ai': 'absent'} -- TLC: invariant CompleteOnSuccess"
 Not a mutation but the inverse experiment: with hooks/fix-C18-checked-close.diff applied all 31 I/O-fault findings
 disappear (only the two -Fmain naming findings remain); with hooks/fix-C18-main-output-name.diff as well the check
 holds with 0 known-finding hits (354 runs accepted).
 Limitation seen: a mutation that makes an emitter write *less* on every run (e.g. dropping foamWrSExpr) is not
 caught, because 'complete' is defined relative to the fault-free output of the same compiler (C05/C17 territory).

Recorded-event corruption (checks.c18.selftest(); one accepted fault-free run -Fao -Ffm -Fmain, one field changed):
 unchanged                                   accepted
 Observed: one output complete -> partial    rejected: invariant CompleteOnSuccess
 Observed: exit 0 -> 3                       rejected: invariant HonestExit
 Observed: error lines 0 -> 1                rejected: invariant HonestExit
 Observed: signal 0 -> 11                    rejected: no Driver action (Fault)
 OutClose rc 0 -> -1 / werr 0 -> 1           rejected at Exit(0): an unreported I/O failure rules out the successful exit
 OutOpen ok true -> false                    rejected at the following OutClose
 Exit event dropped / Exit status 0 -> 1     rejected (Observed without Exit / Exit(1) without a printed error)
 OutClose event dropped                      rejected at PhEnd (a stream is still open)
 Msg error inserted before the outputs       rejected at OutOpen(ao) (code output after a source error)
 The blind-mode variants (no hooks) of the four Observed corruptions are rejected likewise.

Model non-vacuity: DriverAsWritten.cfg (ChecksIo = FALSE, i.e. the pinned code's ignored fclose results) makes TLC refute
CompleteOnSuccess; DriverWitness.cfg makes TLC exhibit a faulted run that ends in a non-zero exit; -coverage 1 on
DriverLayer.cfg (quick) and Driver.cfg (thorough) is checked for taken > 0 of StartFile EndFile Phase PhEnd Msg IoFault
OpenOut WriteOut CloseOut Cleanup Exit.

Unchanged tree passes (exit 0, 33 KNOWN-FINDING lines) with VERIF_SEED=20261004 and 777, with and without hooks.

Model corrections made during development (not findings): the first Driver required the report of an I/O failure
*before any other step*; pairwise-fault runs where the second fault produced the fatal error were then rejected although
the outcome (error printed, exit != 0) satisfies the statement of C18.  The model now only rules out the successful exit
while a failure is unreported (pendingIo), and any error/fatal message discharges it.
"""
